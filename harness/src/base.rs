//! Shared pieces: id renaming, payload tokens, state projection (dump), trace events.
use serde_json::{json, Value};
use std::collections::{BTreeSet, HashMap};
use std::sync::Arc;
use taskchampion_sync_server_core::{Storage, StorageTxn};
use uuid::Uuid;

/// Storage handle that can be given to `Server::new` / `WebServer::new` while the harness
/// keeps another handle for dumps.
#[derive(Clone)]
pub struct Shared(pub Arc<dyn Storage>);

impl Storage for Shared {
    fn txn(&self, client_id: Uuid) -> anyhow::Result<Box<dyn StorageTxn + '_>> {
        self.0.txn(client_id)
    }
}

/// Counts transactions begun (the C16 "without reading any stored state" observation).
pub struct Counting {
    pub inner: Arc<dyn Storage>,
    pub txns: std::sync::atomic::AtomicUsize,
    /// when set, every txn() fails (storage outage seen by the server)
    pub fail_all: std::sync::atomic::AtomicBool,
}

impl Counting {
    pub fn new(inner: Arc<dyn Storage>) -> Arc<Counting> {
        Arc::new(Counting { inner, txns: std::sync::atomic::AtomicUsize::new(0), fail_all: std::sync::atomic::AtomicBool::new(false) })
    }
    pub fn count(&self) -> usize {
        self.txns.load(std::sync::atomic::Ordering::SeqCst)
    }
}

impl Storage for Counting {
    fn txn(&self, client_id: Uuid) -> anyhow::Result<Box<dyn StorageTxn + '_>> {
        self.txns.fetch_add(1, std::sync::atomic::Ordering::SeqCst);
        if self.fail_all.load(std::sync::atomic::Ordering::SeqCst) {
            anyhow::bail!("injected storage outage");
        }
        self.inner.txn(client_id)
    }
}

/// UUID <-> natural-number renaming.  nil <-> 0.  Ids bound by a plan keep the plan's number;
/// everything else is numbered by first appearance starting at `next`.
/// Renaming is injective, so a repeated UUID can never look fresh.
pub struct Namer {
    map: HashMap<Uuid, i64>,
    rev: HashMap<i64, Uuid>,
    next: i64,
    order: Vec<Uuid>,
}

impl Namer {
    pub fn new(first_free: i64) -> Self {
        let mut n = Namer { map: HashMap::new(), rev: HashMap::new(), next: first_free, order: vec![] };
        n.map.insert(Uuid::nil(), 0);
        n.rev.insert(0, Uuid::nil());
        n.order.push(Uuid::nil());
        n
    }
    pub fn bind(&mut self, n: i64, u: Uuid) -> bool {
        if let Some(&old) = self.map.get(&u) {
            return old == n;
        }
        if self.rev.contains_key(&n) {
            return false;
        }
        self.map.insert(u, n);
        self.rev.insert(n, u);
        self.order.push(u);
        true
    }
    pub fn name(&mut self, u: Uuid) -> i64 {
        if let Some(&n) = self.map.get(&u) {
            return n;
        }
        while self.rev.contains_key(&self.next) {
            self.next += 1;
        }
        let n = self.next;
        self.next += 1;
        self.map.insert(u, n);
        self.rev.insert(n, u);
        self.order.push(u);
        n
    }
    /// the UUID for plan number n; an unbound number gets a fresh random UUID (a "random id")
    pub fn uuid(&mut self, n: i64) -> Uuid {
        if let Some(&u) = self.rev.get(&n) {
            return u;
        }
        let u = Uuid::new_v4();
        self.map.insert(u, n);
        self.rev.insert(n, u);
        self.order.push(u);
        u
    }
    pub fn is_bound(&self, n: i64) -> bool {
        self.rev.contains_key(&n)
    }
    /// every UUID seen so far (the probing universe of the dump)
    pub fn universe(&self) -> &[Uuid] {
        &self.order
    }
}

/// Payload bytes <-> token.  Every request gets its own token and its own bytes.
pub struct Payloads {
    by_bytes: HashMap<Vec<u8>, i64>,
    by_tok: HashMap<i64, Vec<u8>>,
    salt: u64,
    next: i64,
}

impl Payloads {
    pub fn new(salt: u64) -> Self {
        Payloads { by_bytes: HashMap::new(), by_tok: HashMap::new(), salt, next: 1 }
    }
    /// the token the next upload will get
    pub fn peek_tok(&self) -> i64 {
        self.next
    }
    pub fn fresh_tok(&mut self) -> i64 {
        let t = self.next;
        self.next += 1;
        t
    }
    /// small default payload: text prefix + bytes that are not valid UTF-8, with NULs
    pub fn make(&mut self, tok: i64) -> Vec<u8> {
        let mut v = format!("tcss:{}:{}:", self.salt, tok).into_bytes();
        let mut x = self.salt ^ (tok as u64).wrapping_mul(0x9E3779B97F4A7C15);
        for _ in 0..6 {
            x ^= x << 13;
            x ^= x >> 7;
            x ^= x << 17;
            v.push((x & 0xff) as u8);
        }
        v.extend_from_slice(&[0x00, 0xff, 0xfe, 0x80]);
        self.register(tok, v.clone());
        v
    }
    /// token for these bytes: the token of an earlier identical upload, else a fresh one
    /// (two uploads of identical bytes are indistinguishable, so they share a token)
    pub fn intern(&mut self, bytes: Vec<u8>) -> i64 {
        if let Some(&t) = self.by_bytes.get(&bytes) {
            return t;
        }
        let t = self.fresh_tok();
        self.register(t, bytes);
        t
    }
    pub fn register(&mut self, tok: i64, bytes: Vec<u8>) {
        self.by_bytes.insert(bytes.clone(), tok);
        self.by_tok.insert(tok, bytes);
    }
    /// token of the upload these bytes equal exactly; -1 = bytes nobody uploaded
    pub fn tok_of(&self, bytes: &[u8]) -> i64 {
        *self.by_bytes.get(bytes).unwrap_or(&-1)
    }
    pub fn bytes_of(&self, tok: i64) -> Option<&Vec<u8>> {
        self.by_tok.get(&tok)
    }
}

#[derive(Clone, Debug, PartialEq, Eq, PartialOrd, Ord)]
pub struct VRec {
    pub vid: i64,
    pub parent: i64,
    pub tok: i64,
}

#[derive(Clone, Debug, PartialEq, Eq, Default)]
pub struct SnapDump {
    pub has: bool,
    pub vid: i64,
    pub tok: i64,
    pub since: i64,
    pub day: i64,
}

#[derive(Clone, Debug, PartialEq, Eq, Default)]
pub struct CsDump {
    pub e: bool,
    pub l: i64,
    pub v: Vec<VRec>,
    pub k: Vec<VRec>,
    pub s: SnapDump,
    /// rows that exist in the raw tables but are invisible through the trait API
    pub x: i64,
    /// errors met while probing (a dump must never fail on a healthy store)
    pub err: Vec<String>,
}

impl CsDump {
    pub fn to_json(&self) -> Value {
        let vj = |v: &Vec<VRec>| -> Value {
            Value::Array(v.iter().map(|r| json!({"vid": r.vid, "parent": r.parent, "tok": r.tok})).collect())
        };
        json!({
            "e": self.e, "l": self.l, "v": vj(&self.v), "k": vj(&self.k),
            "s": {"has": self.s.has, "vid": self.s.vid, "tok": self.s.tok, "since": self.s.since, "day": self.s.day},
            "x": self.x, "nerr": self.err.len(),
        })
    }
}

/// Time base of a run: day d  <=>  real clock + d * 86400 s.
#[derive(Clone, Copy)]
pub struct TimeBase {
    pub t0: i64,
}

impl TimeBase {
    pub fn now() -> Self {
        // real time, not shifted: read with the thread offset cleared by the caller
        TimeBase { t0: chrono::Utc::now().timestamp() }
    }
    pub fn day_of(&self, ts: i64) -> i64 {
        (ts - self.t0).div_euclid(86400)
    }
}

/// Project the protocol-visible state of one client through the public storage API.
pub fn dump_client(
    storage: &dyn Storage,
    client: Uuid,
    namer: &mut Namer,
    pay: &Payloads,
    tb: TimeBase,
) -> CsDump {
    let mut d = CsDump::default();
    let mut txn = match storage.txn(client) {
        Ok(t) => t,
        Err(e) => {
            d.err.push(format!("txn: {e}"));
            return d;
        }
    };
    let cl = match txn.get_client() {
        Ok(c) => c,
        Err(e) => {
            d.err.push(format!("get_client: {e}"));
            None
        }
    };
    // ids stored in the client record belong to the probing universe too (a version whose id
    // was never returned to anybody - a lost acknowledgement - is reachable only from here)
    if let Some(c) = &cl {
        namer.name(c.latest_version_id);
        if let Some(s) = &c.snapshot {
            namer.name(s.version_id);
        }
    }
    let mut byid: BTreeSet<VRec> = BTreeSet::new();
    let mut bypar: BTreeSet<VRec> = BTreeSet::new();
    let mut probed = 0usize;
    // probe to a fixpoint: ids discovered in returned records (parents, children) are probed as well
    for _round in 0..64 {
        let universe: Vec<Uuid> = namer.universe().to_vec();
        if universe.len() == probed {
            break;
        }
        for id in &universe[probed..] {
            match txn.get_version(*id) {
                Ok(Some(v)) => {
                    byid.insert(VRec {
                        vid: namer.name(v.version_id),
                        parent: namer.name(v.parent_version_id),
                        tok: pay.tok_of(&v.history_segment),
                    });
                }
                Ok(None) => {}
                Err(e) => d.err.push(format!("get_version: {e}")),
            }
            match txn.get_version_by_parent(*id) {
                Ok(Some(v)) => {
                    bypar.insert(VRec {
                        vid: namer.name(v.version_id),
                        parent: namer.name(v.parent_version_id),
                        tok: pay.tok_of(&v.history_segment),
                    });
                }
                Ok(None) => {}
                Err(e) => d.err.push(format!("get_version_by_parent: {e}")),
            }
        }
        probed = universe.len();
    }
    d.v = byid.into_iter().collect();
    d.k = bypar.into_iter().collect();
    if let Some(c) = cl {
        d.e = true;
        d.l = namer.name(c.latest_version_id);
        if let Some(s) = c.snapshot {
            d.s.has = true;
            d.s.vid = namer.name(s.version_id);
            d.s.since = s.versions_since as i64;
            d.s.day = tb.day_of(s.timestamp.timestamp());
            match txn.get_snapshot_data(s.version_id) {
                Ok(Some(data)) => d.s.tok = pay.tok_of(&data),
                Ok(None) => d.s.tok = -2,
                Err(e) => {
                    d.s.tok = -3;
                    d.err.push(format!("get_snapshot_data: {e}"));
                }
            }
        }
    }
    drop(txn);
    d
}

/// Raw cross-check of a SQLite data directory: rows the trait API cannot reach.
/// Returns per requested client the number of version rows whose id is not in `seen[client]`,
/// plus (added to the first client) rows that belong to no client of the run.
pub fn sqlite_raw_extra(dir: &std::path::Path, clients: &[Uuid], dumps: &mut [CsDump], namer: &mut Namer) {
    let file = dir.join("taskchampion-sync-server.sqlite3");
    let con = match rusqlite::Connection::open_with_flags(&file, rusqlite::OpenFlags::SQLITE_OPEN_READ_ONLY) {
        Ok(c) => c,
        Err(e) => {
            dumps[0].err.push(format!("raw open: {e}"));
            return;
        }
    };
    let mut idx: HashMap<String, usize> = HashMap::new();
    for (i, c) in clients.iter().enumerate() {
        idx.insert(c.to_string(), i);
    }
    let rows: Vec<(String, String, String)> = (|| -> rusqlite::Result<Vec<(String, String, String)>> {
        let mut st = con.prepare("SELECT CAST(version_id AS TEXT), CAST(client_id AS TEXT), CAST(parent_version_id AS TEXT) FROM versions")?;
        let it = st.query_map([], |r| Ok((r.get::<_, String>(0)?, r.get::<_, String>(1)?, r.get::<_, String>(2)?)))?;
        it.collect()
    })()
    .unwrap_or_else(|e| {
        dumps[0].err.push(format!("raw versions: {e}"));
        vec![]
    });
    for (vid, cid, _par) in rows {
        match idx.get(&cid) {
            Some(&i) => {
                let known = Uuid::parse_str(&vid).ok().map(|u| namer.name(u));
                let found = match known {
                    Some(n) => dumps[i].v.iter().any(|r| r.vid == n),
                    None => false,
                };
                if !found {
                    dumps[i].x += 1;
                }
            }
            None => dumps[0].x += 1,
        }
    }
    let crow: Vec<String> = (|| -> rusqlite::Result<Vec<String>> {
        let mut st = con.prepare("SELECT CAST(client_id AS TEXT) FROM clients")?;
        let it = st.query_map([], |r| r.get::<_, String>(0))?;
        it.collect()
    })()
    .unwrap_or_else(|e| {
        dumps[0].err.push(format!("raw clients: {e}"));
        vec![]
    });
    let mut seen: HashMap<String, i64> = HashMap::new();
    for c in crow {
        *seen.entry(c.clone()).or_insert(0) += 1;
        if !idx.contains_key(&c) {
            dumps[0].x += 1;
        }
    }
    for (c, n) in seen {
        if n > 1 {
            if let Some(&i) = idx.get(&c) {
                dumps[i].x += n - 1;
            }
        }
    }
}

/// Payload generator for the byte classes of C06.
pub fn gen_payload(class: &str, size: usize, seed: u64) -> Vec<u8> {
    let mut x = seed.wrapping_mul(0x9E3779B97F4A7C15) ^ 0xD1B54A32D192ED03 ^ (size as u64);
    let mut next = || {
        x ^= x << 13;
        x ^= x >> 7;
        x ^= x << 17;
        x
    };
    let mut v: Vec<u8> = Vec::with_capacity(size);
    match class {
        "zeros" => v.resize(size, 0),
        "ff" => v.resize(size, 0xff),
        "digits" => {
            // text that looks numeric
            let pats: [&[u8]; 6] = [b"123", b"1e5", b"0x10", b"-0", b"007", b"3.14"];
            let mut i = (seed % 6) as usize;
            while v.len() < size {
                v.extend_from_slice(pats[i % 6]);
                i += 1;
            }
        }
        "utf8" => {
            let pats = ["h\u{e9}llo ", "\u{4e16}\u{754c} ", "\u{1F600}", "na\u{ef}ve ", "{\"a\":1} "];
            let mut i = (seed % 5) as usize;
            while v.len() < size {
                v.extend_from_slice(pats[i % 5].as_bytes());
                i += 1;
            }
        }
        "badutf8" => {
            let pats: [&[u8]; 5] = [&[0xc3, 0x28], &[0xff, 0xfe], &[0xe2, 0x82], &[0xf0, 0x9f, 0x98], &[0x80]];
            let mut i = (seed % 5) as usize;
            while v.len() < size {
                v.extend_from_slice(pats[i % 5]);
                v.push(b'a' + (next() % 26) as u8);
                i += 1;
            }
        }
        "nuls" => {
            while v.len() < size {
                let r = next();
                v.push(if r % 3 == 0 { 0 } else { (r >> 8) as u8 });
            }
        }
        _ => {
            while v.len() < size {
                v.extend_from_slice(&next().to_le_bytes());
            }
        }
    }
    v.truncate(size);
    // make the tail depend on the seed so that two uploads of one class and size differ
    if size >= 12 && class != "zeros" && class != "ff" {
        let t = seed.to_le_bytes();
        let n = v.len();
        for (i, b) in t.iter().enumerate() {
            v[n - 8 + i] = match class {
                "digits" => b'0' + (b % 10),
                "utf8" => b'a' + (b % 26),
                _ => *b,
            };
        }
    }
    v
}

/// Uniform response record of the trace.
#[derive(Clone, Debug, Default)]
pub struct RespRec {
    pub kind: String,
    pub vid: i64,
    pub parent: i64,
    pub tok: i64,
    pub urg: String,
    pub msg: String,
}

impl RespRec {
    pub fn kind(k: &str) -> Self {
        RespRec { kind: k.to_string(), ..Default::default() }
    }
    pub fn to_json(&self) -> Value {
        json!({"kind": self.kind, "vid": self.vid, "parent": self.parent, "tok": self.tok, "urg": self.urg})
    }
}

pub fn silence_panics() {
    if std::env::var("TCSS_SHOW_PANICS").is_ok() {
        return;
    }
    std::panic::set_hook(Box::new(|_| {}));
}
