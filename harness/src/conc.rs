//! Concurrency engine: overlapping requests under a controlled scheduler.
//!
//! A `GateStorage` wraps the real backend behind the public `Storage` trait.  Before every
//! storage call (txn, get_client, ..., commit, and the drop of the transaction) the calling
//! request thread parks at a gate until the controller lets it pass; the controller follows
//! a schedule (from the TLA+ model, or its own depth-first exploration, or a seeded random
//! one).  Every call is logged with a global sequence number taken under the controller's
//! mutex; "acquired" is logged after inner.txn() returned and "release" before the inner
//! transaction is dropped, so in any correct execution the log respects the lock order.
//! The same gates inject trait-level faults (fail a call before or after forwarding it).
use crate::base::*;
use crate::drivers::*;
use crate::seq::{make_driver, make_driver_raw_sqlite, open_backend, out_to_resp, scratch_root, Runner};
use serde_json::{json, Value};
use std::cell::Cell;
use std::collections::{HashMap, HashSet};
use std::io::Write;
use std::sync::{Arc, Condvar, Mutex};
use std::time::{Duration, Instant};
use taskchampion_sync_server_core::{Client, Snapshot, Storage, StorageTxn, Version};
use uuid::Uuid;

thread_local! {
    static RID: Cell<usize> = const { Cell::new(0) };
}

#[derive(Clone, Copy, PartialEq, Debug)]
pub enum Decision {
    Proceed,
    FailBefore,
    FailAfter,
}

#[derive(Default)]
struct CtlState {
    parked: HashMap<usize, String>,
    go: HashMap<usize, Decision>,
    log: Vec<(u64, usize, String)>,
    seq: u64,
    done: HashSet<usize>,
    /// per request: number of gate passes so far
    passes: HashMap<usize, usize>,
    /// fault plan: (request, gate pass index (0-based), decision)
    faults: Vec<(usize, usize, Decision)>,
    /// persistent faults: (request, call name) fails before, every time from now on
    sticky: Vec<(usize, String)>,
    /// make the faults of the plan persistent for their call name
    persist: bool,
    free_run: bool,
}

pub struct Ctl {
    m: Mutex<CtlState>,
    cv: Condvar,
}

#[derive(Debug, PartialEq)]
pub enum Status {
    Parked(String),
    Done,
    Running,
}

impl Ctl {
    pub fn new() -> Arc<Ctl> {
        Arc::new(Ctl { m: Mutex::new(CtlState::default()), cv: Condvar::new() })
    }
    fn note(&self, what: &str) {
        let rid = RID.with(|r| r.get());
        if rid == 0 {
            return;
        }
        let mut st = self.m.lock().unwrap();
        st.seq += 1;
        let s = st.seq;
        st.log.push((s, rid, what.to_string()));
        self.cv.notify_all();
    }
    /// gate: park until released; returns what the call must do
    fn at(&self, call: &str) -> Decision {
        let rid = RID.with(|r| r.get());
        if rid == 0 {
            return Decision::Proceed;
        }
        let mut st = self.m.lock().unwrap();
        let idx = *st.passes.get(&rid).unwrap_or(&0);
        let mut planned = st.faults.iter().find(|f| f.0 == rid && f.1 == idx).map(|f| f.2);
        if planned.is_some() && st.persist {
            st.sticky.push((rid, call.to_string()));
        }
        if planned.is_none() && st.sticky.iter().any(|x| x.0 == rid && x.1 == call) {
            planned = Some(Decision::FailBefore);
        }
        if !st.free_run {
            st.parked.insert(rid, call.to_string());
            self.cv.notify_all();
            while !st.go.contains_key(&rid) && !st.free_run {
                st = self.cv.wait(st).unwrap();
            }
            st.go.remove(&rid);
            st.parked.remove(&rid);
        }
        *st.passes.entry(rid).or_insert(0) += 1;
        let d = planned.unwrap_or(Decision::Proceed);
        st.seq += 1;
        let s = st.seq;
        let tag = match d {
            Decision::Proceed => call.to_string(),
            Decision::FailBefore => format!("FAIL-before-{call}"),
            Decision::FailAfter => format!("FAIL-after-{call}"),
        };
        st.log.push((s, rid, tag));
        self.cv.notify_all();
        d
    }
    fn mark_done(&self, rid: usize) {
        let mut st = self.m.lock().unwrap();
        st.seq += 1;
        let s = st.seq;
        st.log.push((s, rid, "DONE".into()));
        st.done.insert(rid);
        self.cv.notify_all();
    }
    fn mark_start(&self, rid: usize) {
        let mut st = self.m.lock().unwrap();
        st.seq += 1;
        let s = st.seq;
        st.log.push((s, rid, "START".into()));
    }
    /// wait until `rid` is parked at a gate or done; Running after `grace`
    pub fn wait_settled(&self, rid: usize, grace: Duration) -> Status {
        let deadline = Instant::now() + grace;
        let mut st = self.m.lock().unwrap();
        loop {
            if let Some(c) = st.parked.get(&rid) {
                if !st.go.contains_key(&rid) {
                    return Status::Parked(c.clone());
                }
            }
            if st.done.contains(&rid) {
                return Status::Done;
            }
            let now = Instant::now();
            if now >= deadline {
                return Status::Running;
            }
            let (g, _) = self.cv.wait_timeout(st, deadline - now).unwrap();
            st = g;
        }
    }
    pub fn status(&self, rid: usize) -> Status {
        self.wait_settled(rid, Duration::from_millis(0))
    }
    pub fn release(&self, rid: usize) {
        let mut st = self.m.lock().unwrap();
        st.go.insert(rid, Decision::Proceed);
        self.cv.notify_all();
    }
    pub fn free_run(&self) {
        let mut st = self.m.lock().unwrap();
        st.free_run = true;
        self.cv.notify_all();
    }
    pub fn set_faults(&self, f: Vec<(usize, usize, Decision)>) {
        self.m.lock().unwrap().faults = f;
    }
    pub fn set_persist(&self, p: bool) {
        self.m.lock().unwrap().persist = p;
    }
    pub fn log(&self) -> Vec<(u64, usize, String)> {
        self.m.lock().unwrap().log.clone()
    }
}

pub struct GateStorage {
    pub ctl: Arc<Ctl>,
    pub inner: Arc<dyn Storage>,
}

impl Storage for GateStorage {
    fn txn(&self, client_id: Uuid) -> anyhow::Result<Box<dyn StorageTxn + '_>> {
        match self.ctl.at("txn") {
            Decision::FailBefore => return Err(anyhow::anyhow!("injected fault: txn")),
            Decision::FailAfter => {
                // open and immediately drop the transaction, then report failure
                let t = self.inner.txn(client_id)?;
                drop(t);
                return Err(anyhow::anyhow!("injected fault: txn (after)"));
            }
            Decision::Proceed => {}
        }
        match self.inner.txn(client_id) {
            Ok(t) => {
                self.ctl.note("acquired");
                Ok(Box::new(GateTxn { ctl: self.ctl.clone(), inner: Some(t) }))
            }
            Err(e) => {
                self.ctl.note("txn-error");
                Err(e)
            }
        }
    }
}

struct GateTxn<'a> {
    ctl: Arc<Ctl>,
    inner: Option<Box<dyn StorageTxn + 'a>>,
}

macro_rules! gated {
    ($self:ident, $name:expr, $call:expr) => {{
        match $self.ctl.at($name) {
            Decision::FailBefore => Err(anyhow::anyhow!(concat!("injected fault: ", $name))),
            Decision::FailAfter => {
                let r = $call;
                match r {
                    Ok(_) => Err(anyhow::anyhow!(concat!("injected fault after: ", $name))),
                    Err(e) => Err(e),
                }
            }
            Decision::Proceed => $call,
        }
    }};
}

impl StorageTxn for GateTxn<'_> {
    fn get_client(&mut self) -> anyhow::Result<Option<Client>> {
        gated!(self, "get_client", self.inner.as_mut().unwrap().get_client())
    }
    fn new_client(&mut self, latest_version_id: Uuid) -> anyhow::Result<()> {
        gated!(self, "new_client", self.inner.as_mut().unwrap().new_client(latest_version_id))
    }
    fn set_snapshot(&mut self, snapshot: Snapshot, data: Vec<u8>) -> anyhow::Result<()> {
        gated!(self, "set_snapshot", self.inner.as_mut().unwrap().set_snapshot(snapshot.clone(), data.clone()))
    }
    fn get_snapshot_data(&mut self, version_id: Uuid) -> anyhow::Result<Option<Vec<u8>>> {
        gated!(self, "get_snapshot_data", self.inner.as_mut().unwrap().get_snapshot_data(version_id))
    }
    fn get_version_by_parent(&mut self, parent_version_id: Uuid) -> anyhow::Result<Option<Version>> {
        gated!(self, "get_version_by_parent", self.inner.as_mut().unwrap().get_version_by_parent(parent_version_id))
    }
    fn get_version(&mut self, version_id: Uuid) -> anyhow::Result<Option<Version>> {
        gated!(self, "get_version", self.inner.as_mut().unwrap().get_version(version_id))
    }
    fn add_version(&mut self, version_id: Uuid, parent_version_id: Uuid, history_segment: Vec<u8>) -> anyhow::Result<()> {
        gated!(self, "add_version", self.inner.as_mut().unwrap().add_version(version_id, parent_version_id, history_segment.clone()))
    }
    fn commit(&mut self) -> anyhow::Result<()> {
        gated!(self, "commit", self.inner.as_mut().unwrap().commit())
    }
}

impl Drop for GateTxn<'_> {
    fn drop(&mut self) {
        // "release" is logged BEFORE the inner transaction is dropped
        let _ = self.ctl.at("release");
        let inner = self.inner.take();
        let r = std::panic::catch_unwind(std::panic::AssertUnwindSafe(|| drop(inner)));
        self.ctl.note("released");
        if let Err(e) = r {
            std::panic::resume_unwind(e);
        }
    }
}

// ------------------------------------------------------------------ same-server follow-ups

/// One protocol operation for the request thread's own driver (op, client, argument, body).
type Cmd = (String, Uuid, Uuid, Vec<u8>);
type Reply = (Out, Option<crate::drivers::HttpInfo>);

/// The follow-up requests of a round go through the SAME server object (library `Server` or web
/// application) that served the round's request: that object lives on the request thread, which
/// keeps serving commands after its request is over.  Whatever the server remembers in process
/// about the failed request is then in force for the follow-ups, as it is for the next client of
/// a real server process.
struct ProxyDriver {
    tx: std::sync::mpsc::Sender<Cmd>,
    rx: std::sync::mpsc::Receiver<Reply>,
    lvl: &'static str,
}

impl ProxyDriver {
    fn call(&mut self, op: &str, c: Uuid, a: Uuid, body: Vec<u8>) -> Reply {
        if self.tx.send((op.to_string(), c, a, body)).is_err() {
            return (Out::Error { msg: "the request thread's server is gone".into() }, None);
        }
        match self.rx.recv_timeout(Duration::from_secs(20)) {
            Ok(r) => r,
            Err(_) => (Out::Error { msg: "timeout".into() }, None),
        }
    }
}

impl crate::drivers::Driver for ProxyDriver {
    fn add_version(&mut self, c: Uuid, p: Uuid, body: Vec<u8>) -> Reply {
        self.call("AddVersion", c, p, body)
    }
    fn get_child_version(&mut self, c: Uuid, p: Uuid) -> Reply {
        self.call("GetChildVersion", c, p, vec![])
    }
    fn add_snapshot(&mut self, c: Uuid, v: Uuid, body: Vec<u8>) -> Reply {
        self.call("AddSnapshot", c, v, body)
    }
    fn get_snapshot(&mut self, c: Uuid) -> Reply {
        self.call("GetSnapshot", c, Uuid::nil(), vec![])
    }
    fn level(&self) -> &'static str {
        self.lvl
    }
}

// ------------------------------------------------------------------ one round

pub struct RoundSpec {
    pub backend: String,
    /// "shared": one storage object; "multi": one SqliteStorage object per request on one directory
    pub instances: String,
    pub driver: String,
    pub days: i64,
    pub versions: u32,
    pub seed: Vec<Value>,
    /// requests: [{op, argk | arg, lvl}], all for client 1 unless "c" says otherwise
    pub reqs: Vec<Value>,
    /// I/O-level fault (LD_PRELOAD shim): (call number counted from the start of the round, errno, persist, after)
    pub iofault: Option<(i64, i32, bool, bool)>,
    /// requests executed one after the other once the round is over (same storage)
    pub follow: Vec<Value>,
    /// trait-level faults stay: every later call of the same name by the request fails too
    pub persist: bool,
    /// follow-ups go through the server object of request 1 (single-request rounds)
    pub follow_same: bool,
    /// no harness wrapper between the server and the SQLite backend object, no gates: the requests of the round start
    /// together and the operating system schedules them (stress)
    pub raw: bool,
    /// a slow disk (LD_PRELOAD shim): I/O call number `at` of the round takes `ms` milliseconds longer
    pub iodelay: Option<(i64, i64)>,
    /// lock contention (LD_PRELOAD shim): the next n attempts to take the SQLite write lock are refused
    pub lockbusy: Option<i64>,
}

pub struct RoundResult {
    pub event: Value,
    /// decision points met: for each, the requests that were parked (choices) and the one chosen
    pub decisions: Vec<(Vec<usize>, usize)>,
}

pub enum Policy<'a> {
    /// follow a model schedule: list of (rid, call)
    Model(&'a [(usize, String)]),
    /// follow a prefix of choices, then always the lowest runnable request
    Prefix(&'a [usize]),
    /// seeded random
    Random(u64),
}

fn xorshift(x: &mut u64) -> u64 {
    *x ^= *x << 13;
    *x ^= *x >> 7;
    *x ^= *x << 17;
    *x
}

pub fn run_round(spec: &RoundSpec, policy: Policy, faults: Vec<(usize, usize, Decision)>, run: i64, scratch: &std::path::Path) -> anyhow::Result<RoundResult> {
    // --- seed state, built sequentially on the real storage by the seed script
    let job = json!({"id": format!("round{run}"), "run": run, "backend": spec.backend, "driver": "lib",
        "cfg": {"days": spec.days, "versions": spec.versions}, "nclients": 2, "first_free": 1, "steps": []});
    let mut seedr = Runner::new(&job, scratch)?;
    seedr.reset_event();
    for (i, s) in spec.seed.iter().enumerate() {
        let mut s2 = s.clone();
        // the seed script uses the HTTP meaning of AddVersion (create the client if absent)
        if s2.get("c").is_none() {
            s2["c"] = json!(1);
        }
        let sc = s2["c"].as_i64().unwrap_or(1);
        if s2["op"] == "AddVersion" && !seedr.last.get((sc - 1) as usize).map(|d| d.e).unwrap_or(false) {
            seedr.step(&json!({"op": "NewClient", "c": sc}), i);
        }
        let (ev, _) = seedr.step(&s2, i);
        if ev.get("toolerr").is_some() {
            anyhow::bail!("seed script: {}", ev["toolerr"]);
        }
    }
    let seed_state = Runner::st_json(&seedr.last.clone());
    let client = seedr.clients[0];
    // resolve request arguments against the seed state
    let nreq = spec.reqs.len();
    let mut args: Vec<Uuid> = vec![];
    for q in &spec.reqs {
        let a = match q.get("argk").and_then(|x| x.as_str()) {
            Some("nil") => json!({"sym": "nil"}),
            Some("latest") => json!({"sym": "latest", "of": 1}),
            Some("old") => json!({"sym": "first", "of": 1}),
            Some("mid") => json!({"sym": "anc", "of": 1, "k": 1}),
            Some("rnd") => json!({"sym": "rnd", "k": 0}),
            _ => q.get("arg").cloned().unwrap_or(json!({"sym": "nil"})),
        };
        // "rnd" must be the model's id 90 where the seed used it
        let u = if q.get("argk").and_then(|x| x.as_str()) == Some("rnd") { seedr.namer.uuid(90) } else { seedr.resolve_pub(&a, 0) };
        args.push(u);
    }
    let inner = seedr.storage.as_ref().unwrap().clone();
    let ctl = Ctl::new();
    ctl.set_faults(faults.clone());
    ctl.set_persist(spec.persist);
    let dir = seedr.dir.clone();
    // payloads
    let mut toks: Vec<i64> = vec![];
    let mut bodies: Vec<Vec<u8>> = vec![];
    for _ in 0..nreq {
        let t = seedr.pay.fresh_tok();
        bodies.push(seedr.pay.make(t));
        toks.push(t);
    }
    let outs: Arc<Mutex<HashMap<usize, Out>>> = Arc::new(Mutex::new(HashMap::new()));
    let mut handles: HashMap<usize, std::thread::JoinHandle<()>> = HashMap::new();
    let proxies: std::cell::RefCell<HashMap<usize, ProxyDriver>> = std::cell::RefCell::new(HashMap::new());
    let barrier = Arc::new(std::sync::Barrier::new(if spec.raw { spec.reqs.len() } else { 1 }));
    // "shared" = the requests of the round are served by ONE server object (what the workers of the real executable share:
    // `WebServer` clones point to one server state); whatever it keeps in process - a memo, a mutex - is shared too.
    // "multi" = one server object (and one SqliteStorage object) per request, as separate processes on one directory.
    let one_server = spec.instances != "multi";
    let scfg = || taskchampion_sync_server_core::ServerConfig { snapshot_days: spec.days, snapshot_versions: spec.versions };
    let shared_gate: Arc<GateStorage> = Arc::new(GateStorage { ctl: ctl.clone(), inner: inner.clone() });
    let (shared_lib, shared_ws): (Option<Arc<taskchampion_sync_server_core::Server>>, Option<taskchampion_sync_server::WebServer>) = if !one_server {
        (None, None)
    } else if spec.raw {
        match (taskchampion_sync_server_storage_sqlite::SqliteStorage::new(&dir), taskchampion_sync_server_storage_sqlite::SqliteStorage::new(&dir)) {
            (Ok(a), Ok(b)) => (
                Some(Arc::new(taskchampion_sync_server_core::Server::new(scfg(), a))),
                Some(taskchampion_sync_server::WebServer::new(scfg(), None, b)),
            ),
            _ => (None, None),
        }
    } else {
        (
            Some(Arc::new(taskchampion_sync_server_core::Server::new(scfg(), Shared(shared_gate.clone())))),
            Some(taskchampion_sync_server::WebServer::new(scfg(), None, Shared(shared_gate.clone()))),
        )
    };
    let start_thread = |rid: usize, handles: &mut HashMap<usize, std::thread::JoinHandle<()>>| {
        let q = spec.reqs[rid - 1].clone();
        let serve: Option<(std::sync::mpsc::Receiver<Cmd>, std::sync::mpsc::Sender<Reply>)> = if spec.follow_same && rid == 1 && !spec.follow.is_empty() {
            let (ctx, crx) = std::sync::mpsc::channel::<Cmd>();
            let (rtx, rrx) = std::sync::mpsc::channel::<Reply>();
            proxies.borrow_mut().insert(rid, ProxyDriver { tx: ctx, rx: rrx, lvl: if q["lvl"] == "lib" { "lib" } else { "http" } });
            Some((crx, rtx))
        } else {
            None
        };
        let ctl2 = ctl.clone();
        let outs2 = outs.clone();
        let arg = args[rid - 1];
        let body = bodies[rid - 1].clone();
        let (days, versions) = (spec.days, spec.versions);
        let driver_kind = if q["lvl"] == "lib" { "lib".to_string() } else { "http".to_string() };
        let storage: Arc<dyn Storage> = if spec.instances == "multi" && spec.backend == "sqlite" {
            match open_backend("sqlite", &dir) {
                Ok(s) => s,
                Err(_) => inner.clone(),
            }
        } else {
            inner.clone()
        };
        ctl.mark_start(rid);
        let (raw, dir2, barrier2) = (spec.raw, dir.clone(), barrier.clone());
        let (slib, sws) = (shared_lib.clone(), shared_ws.clone());
        let h = std::thread::Builder::new()
            .stack_size(8 << 20)
            .spawn(move || {
                RID.with(|r| r.set(rid));
                let gate = Arc::new(GateStorage { ctl: ctl2.clone(), inner: storage });
                let mut d: Box<dyn Driver> = match (driver_kind.as_str(), slib, sws) {
                    ("lib", Some(sv), _) => Box::new(LibDriver::shared(sv)),
                    (k, _, Some(ws)) if k != "lib" => Box::new(make_http_driver_ws(&ws)),
                    _ if raw => match make_driver_raw_sqlite(&driver_kind, days, versions, &dir2) {
                        Ok(d) => d,
                        Err(_) => make_driver(&driver_kind, days, versions, None, Shared(gate)),
                    },
                    _ => make_driver(&driver_kind, days, versions, None, Shared(gate)),
                };
                if raw {
                    barrier2.wait();
                }
                let res = std::panic::catch_unwind(std::panic::AssertUnwindSafe(|| {
                    match q["op"].as_str().unwrap_or("") {
                        "AddVersion" => d.add_version(client, arg, body).0,
                        "GetChildVersion" => d.get_child_version(client, arg).0,
                        "AddSnapshot" => d.add_snapshot(client, arg, body).0,
                        "GetSnapshot" => d.get_snapshot(client).0,
                        o => Out::Error { msg: format!("unknown op {o}") },
                    }
                }));
                let panicked = res.is_err();
                let out = match res {
                    Ok(o) => o,
                    Err(_) => Out::Panic { msg: "panic in request thread".into() },
                };
                outs2.lock().unwrap().insert(rid, out);
                RID.with(|r| r.set(0));
                ctl2.mark_done(rid);
                // keep serving: follow-up requests through this very server object (no gates, no faults: RID is 0)
                if let (Some((crx, rtx)), false) = (serve, panicked) {
                    while let Ok((op, c, a, b)) = crx.recv() {
                        let r = std::panic::catch_unwind(std::panic::AssertUnwindSafe(|| match op.as_str() {
                            "AddVersion" => d.add_version(c, a, b),
                            "GetChildVersion" => d.get_child_version(c, a),
                            "AddSnapshot" => d.add_snapshot(c, a, b),
                            _ => d.get_snapshot(c),
                        }));
                        let reply = r.unwrap_or((Out::Panic { msg: "panic in follow-up".into() }, None));
                        if rtx.send(reply).is_err() {
                            break;
                        }
                    }
                }
            })
            .expect("spawn");
        handles.insert(rid, h);
    };

    // lock contention means that somebody else is connected: an idle second connection keeps the shared wal-index alive, so
    // that a refused write lock is the refusal a waiting writer sees (without it every new connection first has to rebuild
    // the wal-index, which takes the same lock and gives up with SQLITE_PROTOCOL instead of waiting)
    let mut hold: Option<rusqlite::Connection> = None;
    if spec.lockbusy.is_some() && spec.backend == "sqlite" {
        if let Ok(c) = rusqlite::Connection::open(dir.join("taskchampion-sync-server.sqlite3")) {
            let _: i64 = c.query_row("SELECT count(*) FROM clients", [], |r| r.get(0)).unwrap_or(0);
            hold = Some(c);
        }
    }
    let mut io_before = 0i64;
    if crate::shimapi::present() {
        crate::shimapi::io_reset();
        io_before = crate::shimapi::io_count();
        if let Some((at, errno, persist, after)) = spec.iofault {
            crate::shimapi::io_fail(at, errno, persist, after);
        }
        if let Some(n) = spec.lockbusy {
            crate::shimapi::lock_busy(n);
        }
        if let Some((at, ms)) = spec.iodelay {
            crate::shimapi::io_delay(at, ms);
        }
    } else if spec.iofault.is_some() || spec.lockbusy.is_some() {
        anyhow::bail!("I/O fault requested but the shim is not loaded");
    }
    let grace = Duration::from_millis(if spec.backend == "sqlite" { 25 } else { 8 });
    let long = Duration::from_secs(3);
    let mut started: HashSet<usize> = HashSet::new();
    let mut decisions: Vec<(Vec<usize>, usize)> = vec![];
    let mut timeouts: HashSet<usize> = HashSet::new();
    let t_round = Instant::now();
    let mut last_progress = Instant::now();
    let mut stuck = false;

    // let `rid` pass its current gate and settle (parked again / done / blocked)
    let step = |rid: usize| {
        ctl.release(rid);
        ctl.wait_settled(rid, grace)
    };

    match policy {
        Policy::Model(sched) => {
            // The model schedule is a priority order of gate passes.  The controller never waits
            // longer than the grace period while somebody may be holding the lock at a gate, so
            // a run that deviates from the model (another call sequence) cannot starve a blocked
            // request into the backend's lock-wait limit.
            for (rid, call) in sched.iter() {
                let rid = *rid;
                if rid == 0 || rid > nreq || call == "acquired" {
                    continue;
                }
                if !started.contains(&rid) {
                    start_thread(rid, &mut handles);
                    started.insert(rid);
                    ctl.wait_settled(rid, Duration::from_secs(3));
                }
                match ctl.wait_settled(rid, grace) {
                    Status::Parked(_) => {
                        decisions.push((vec![rid], rid));
                        step(rid);
                    }
                    Status::Done | Status::Running => {}
                }
            }
            // whatever is left: lowest parked request first
            for rid in 1..=nreq {
                if !started.contains(&rid) {
                    start_thread(rid, &mut handles);
                    started.insert(rid);
                    ctl.wait_settled(rid, Duration::from_secs(3));
                }
            }
            loop {
                if t_round.elapsed() > Duration::from_secs(40) {
                    break;
                }
                let mut parked = vec![];
                let mut alldone = true;
                for rid in 1..=nreq {
                    match ctl.status(rid) {
                        Status::Parked(_) => {
                            parked.push(rid);
                            alldone = false;
                        }
                        Status::Running => alldone = false,
                        Status::Done => {}
                    }
                }
                if alldone {
                    break;
                }
                if let Some(&r) = parked.first() {
                    step(r);
                } else {
                    for rid in 1..=nreq {
                        if ctl.status(rid) == Status::Running && ctl.wait_settled(rid, Duration::from_millis(100)) != Status::Running {
                            break;
                        }
                    }
                }
            }
        }
        Policy::Prefix(_) | Policy::Random(_) => {
            for rid in 1..=nreq {
                start_thread(rid, &mut handles);
                started.insert(rid);
            }
            for rid in 1..=nreq {
                if ctl.wait_settled(rid, long) == Status::Running {
                    timeouts.insert(rid);
                }
            }
            let mut rng = if let Policy::Random(s) = policy { s | 1 } else { 1 };
            let prefix: Vec<usize> = if let Policy::Prefix(p) = policy { p.to_vec() } else { vec![] };
            let mut k = 0usize;
            loop {
                if t_round.elapsed() > Duration::from_secs(40) {
                    break;
                }
                let mut choices: Vec<usize> = vec![];
                let mut alldone = true;
                for rid in 1..=nreq {
                    match ctl.status(rid) {
                        Status::Parked(_) => {
                            choices.push(rid);
                            alldone = false;
                        }
                        Status::Running => alldone = false,
                        Status::Done => {}
                    }
                }
                if alldone {
                    break;
                }
                if choices.is_empty() {
                    // everybody still running is blocked or computing: wait a little
                    let mut any = false;
                    for rid in 1..=nreq {
                        if ctl.status(rid) == Status::Running {
                            if ctl.wait_settled(rid, Duration::from_millis(200)) != Status::Running {
                                any = true;
                                break;
                            }
                        }
                    }
                    if any {
                        last_progress = Instant::now();
                    }
                    // nobody is parked and nothing has moved for 12 s (a backend gives up on a lock after 5 s): the requests
                    // that are left wait for each other - the round is over, they are recorded as never answered
                    if !any && last_progress.elapsed() > Duration::from_secs(12) {
                        stuck = true;
                        break;
                    }
                    continue;
                }
                last_progress = Instant::now();
                let pick = if k < prefix.len() && choices.contains(&prefix[k]) {
                    prefix[k]
                } else if matches!(policy, Policy::Random(_)) {
                    choices[(xorshift(&mut rng) % choices.len() as u64) as usize]
                } else {
                    choices[0]
                };
                decisions.push((choices.clone(), pick));
                k += 1;
                step(pick);
            }
        }
    }
    // drain: whatever is left runs freely
    ctl.free_run();
    let deadline = Instant::now() + Duration::from_secs(if stuck { 1 } else { 15 });
    for rid in 1..=nreq {
        if !started.contains(&rid) {
            start_thread(rid, &mut handles);
            started.insert(rid);
        }
    }
    for rid in 1..=nreq {
        let left = deadline.saturating_duration_since(Instant::now());
        if ctl.wait_settled(rid, left) != Status::Done {
            timeouts.insert(rid);
        }
    }
    // a slow call may outlive the answer (the point of the exercise): observe only when it is over and the files are quiet
    if let Some((_, ms)) = spec.iodelay {
        let until = t_round + Duration::from_millis(ms as u64 + 1500);
        while Instant::now() < until {
            std::thread::sleep(Duration::from_millis(50));
        }
        let mut last = crate::shimapi::io_count();
        loop {
            std::thread::sleep(Duration::from_millis(300));
            let now = crate::shimapi::io_count();
            if now == last {
                break;
            }
            last = now;
        }
    }
    if !timeouts.is_empty() {
        // requests that never finished may sit on the storage lock for good: the projection must not wait for them
        seedr.probe_lock = true;
    }
    // --- observation
    let log = ctl.log();
    let outs = outs.lock().unwrap().clone();
    let mut resps: Vec<Value> = vec![];
    let mut reqs_json: Vec<Value> = vec![];
    for rid in 1..=nreq {
        let q = &spec.reqs[rid - 1];
        let out = outs.get(&rid).cloned().unwrap_or(Out::Error { msg: "timeout".into() });
        let mut rr = out_to_resp(&out, &mut seedr.namer, &seedr.pay);
        if !outs.contains_key(&rid) {
            rr.kind = "timeout".into();
        }
        let vid = if rr.kind == "ok" { rr.vid } else { 0 };
        reqs_json.push(json!({"op": q["op"], "c": 1, "arg": seedr.namer.name(args[rid - 1]), "lvl": q["lvl"], "tok": toks[rid - 1], "vid": vid}));
        let mut rj = rr.to_json();
        if !rr.msg.is_empty() {
            rj["msg"] = json!(rr.msg);
        }
        resps.push(rj);
    }
    let iocount = if crate::shimapi::present() { crate::shimapi::io_count() - io_before } else { -1 };
    let mut lock_seen = -1;
    if crate::shimapi::present() {
        crate::shimapi::io_reset(); // disarm before observing
        if spec.lockbusy.is_some() {
            lock_seen = crate::shimapi::lock_busy_seen();
            crate::shimapi::lock_busy(0);
        }
    }
    drop(hold);
    let fin = seedr.dump();
    let final_state = Runner::st_json(&fin);
    // follow-up requests: served normally?
    let mut follow: Vec<Value> = vec![];
    let same = proxies.borrow_mut().remove(&1).filter(|_| ctl.status(1) == Status::Done);
    let same_server = same.is_some();
    let own_driver = seedr.driver.take();
    if let Some(p) = same {
        seedr.driver = Some(Box::new(p));
    } else {
        seedr.driver = own_driver;
    }
    for (i, f) in spec.follow.iter().enumerate() {
        let mut f2 = f.clone();
        if f2.get("c").is_none() {
            f2["c"] = json!(1);
        }
        let (ev, _) = seedr.step(&f2, 1000 + i);
        let c = (f2["c"].as_i64().unwrap_or(1) - 1) as usize;
        let vid = if ev["resp"]["kind"] == "ok" { ev["resp"]["vid"].clone() } else { json!(0) };
        follow.push(json!({"req": {"op": ev["req"]["op"], "c": 1, "arg": ev["req"]["arg"], "lvl": ev["req"]["lvl"], "tok": ev["req"]["tok"], "vid": vid},
                           "resp": ev["resp"], "st": ev["st"][c]}));
    }
    seedr.driver = None; // hangs up the proxy: the request thread ends
    proxies.borrow_mut().clear();
    for (rid, h) in handles.drain() {
        if !timeouts.contains(&rid) || ctl.status(rid) == Status::Done {
            let _ = h.join();
        }
    }
    // real-time order: r DONE before s START
    let pos = |rid: usize, tag: &str| log.iter().find(|e| e.1 == rid && e.2 == tag).map(|e| e.0);
    let mut before: Vec<Value> = vec![];
    for r in 1..=nreq {
        for s in 1..=nreq {
            if r != s {
                if let (Some(d), Some(st)) = (pos(r, "DONE"), pos(s, "START")) {
                    if d < st {
                        before.push(json!([r, s]));
                    }
                }
            }
        }
    }
    let calls: Vec<Value> = log.iter().filter(|e| e.2 != "START" && e.2 != "DONE").map(|e| json!([e.1, e.2])).collect();
    let event = json!({
        "ev": "Round", "run": run, "i": 0,
        "backend": spec.backend, "instances": spec.instances,
        "cfg": {"days": spec.days, "versions": spec.versions},
        "seed": seed_state[0], "reqs": reqs_json, "resps": resps, "before": before,
        "final": final_state[0], "other": final_state[1], "other0": seed_state[1],
        "log": calls, "nfaults": faults.len(),
        "faults": faults.iter().map(|f| json!([f.0, f.1, format!("{:?}", f.2)])).collect::<Vec<_>>(),
        "timeouts": timeouts.iter().collect::<Vec<_>>(),
        "iocount": iocount,
        "iofault": spec.iofault.map(|f| json!({"at": f.0, "errno": f.1, "persist": f.2, "after": f.3})).unwrap_or(json!({"at": 0, "errno": 0, "persist": false, "after": false})),
        "faulted": !faults.is_empty() || spec.iofault.is_some() || spec.lockbusy.is_some() || spec.iodelay.is_some(),
        "iodelay": {"at": spec.iodelay.map(|d| d.0).unwrap_or(0), "ms": spec.iodelay.map(|d| d.1).unwrap_or(0)},
        "lockbusy": {"n": spec.lockbusy.unwrap_or(0), "refused": lock_seen},
        "follow": follow, "follow_same_server": same_server, "raw": spec.raw,
    });
    seedr.cleanup();
    Ok(RoundResult { event, decisions })
}

fn spec_of(j: &Value) -> RoundSpec {
    RoundSpec {
        backend: j["backend"].as_str().unwrap_or("inmemory").to_string(),
        instances: j["instances"].as_str().unwrap_or("shared").to_string(),
        driver: "http".into(),
        days: j["cfg"]["days"].as_i64().unwrap_or(14),
        versions: j["cfg"]["versions"].as_u64().unwrap_or(100) as u32,
        seed: j["seed"].as_array().cloned().unwrap_or_default(),
        reqs: j["reqs"].as_array().cloned().unwrap_or_default(),
        iofault: j.get("iofault").filter(|f| f.is_object()).map(|f| {
            (f["at"].as_i64().unwrap_or(1), f["errno"].as_i64().unwrap_or(5) as i32, f["persist"].as_bool().unwrap_or(false), f["after"].as_bool().unwrap_or(false))
        }),
        follow: j["follow"].as_array().cloned().unwrap_or_default(),
        persist: false,
        follow_same: j["follow_same"].as_bool().unwrap_or(true),
        lockbusy: None,
        iodelay: None,
        raw: j["raw"].as_bool().unwrap_or(false) && j["backend"].as_str() == Some("sqlite"),
    }
}

fn parse_faults(j: &Value) -> Vec<(usize, usize, Decision)> {
    j["faults"]
        .as_array()
        .map(|a| {
            a.iter()
                .map(|f| {
                    (
                        f[0].as_u64().unwrap_or(1) as usize,
                        f[1].as_u64().unwrap_or(0) as usize,
                        if f[2] == "after" { Decision::FailAfter } else { Decision::FailBefore },
                    )
                })
                .collect()
        })
        .unwrap_or_default()
}

/// plan: {"jobs":[{mode:"model"|"dfs"|"random", backend, instances, seed, reqs, sched?, max_rounds?, seeds?}]}
pub fn run(plan_path: &str, out_path: &str) -> anyhow::Result<i32> {
    let plan: Value = serde_json::from_reader(std::io::BufReader::new(std::fs::File::open(plan_path)?))?;
    silence_panics();
    let scratch = scratch_root();
    std::fs::create_dir_all(&scratch)?;
    let mut w = std::io::BufWriter::new(std::fs::File::create(out_path)?);
    let mut rounds = 0i64;
    let mut run_id = plan["run0"].as_i64().unwrap_or(1);
    let mut per_job: Vec<Value> = vec![];
    for j in plan["jobs"].as_array().cloned().unwrap_or_default() {
        let spec = spec_of(&j);
        let faults = parse_faults(&j);
        let jid = j["id"].clone();
        let emit = |res: RoundResult, extra: Value, w: &mut dyn Write| -> anyhow::Result<()> {
            let mut ev = res.event;
            ev["job"] = jid.clone();
            ev["mode"] = j["mode"].clone();
            ev["info"] = extra;
            writeln!(w, "{}", ev)?;
            Ok(())
        };
        match j["mode"].as_str().unwrap_or("model") {
            "model" => {
                let sched: Vec<(usize, String)> = j["sched"]
                    .as_array()
                    .map(|a| a.iter().map(|e| (e[0].as_u64().unwrap_or(0) as usize, e[1].as_str().unwrap_or("").to_string())).collect())
                    .unwrap_or_default();
                let r = run_round(&spec, Policy::Model(&sched), faults.clone(), run_id, &scratch)?;
                emit(r, json!({"sched": j["sched"]}), &mut w)?;
                run_id += 1;
                rounds += 1;
                per_job.push(json!({"id": j["id"], "rounds": 1}));
            }
            "sweep" => {
                // C05: every storage call (trait level) and every I/O call (shim level) of ONE request fails once
                let mut spec = spec;
                let probe = run_round(&spec, Policy::Prefix(&[]), vec![], run_id, &scratch)?;
                let ngates = probe.decisions.len();
                let nio = probe.event["iocount"].as_i64().unwrap_or(-1);
                emit(probe, json!({"sweep": "probe"}), &mut w)?;
                run_id += 1;
                let mut n = 1usize;
                let io_stride = j["io_stride"].as_i64().unwrap_or(1).max(1);
                for k in 0..ngates {
                    for d in [Decision::FailBefore, Decision::FailAfter] {
                        let r = run_round(&spec, Policy::Prefix(&[]), vec![(1, k, d)], run_id, &scratch)?;
                        emit(r, json!({"sweep": "trait", "gate": k, "when": format!("{d:?}")}), &mut w)?;
                        run_id += 1;
                        n += 1;
                    }
                    // the same call keeps failing (an outage, a full disk): the request must still end with an error
                    spec.persist = true;
                    let r = run_round(&spec, Policy::Prefix(&[]), vec![(1, k, Decision::FailBefore)], run_id, &scratch)?;
                    spec.persist = false;
                    emit(r, json!({"sweep": "trait-persistent", "gate": k}), &mut w)?;
                    run_id += 1;
                    n += 1;
                }
                if spec.backend == "sqlite" && nio > 0 {
                    let variants: Vec<(i32, bool, bool)> = match j["io_variants"].as_str() {
                        Some("full") => vec![(5, false, false), (28, false, false), (5, true, false), (5, false, true)],
                        _ => vec![(5, false, false), (28, true, false)],
                    };
                    let mut k = 1;
                    while k <= nio {
                        for (errno, persist, after) in variants.iter() {
                            spec.iofault = Some((k, *errno, *persist, *after));
                            let r = run_round(&spec, Policy::Prefix(&[]), vec![], run_id, &scratch)?;
                            emit(r, json!({"sweep": "io", "at": k, "errno": errno, "persist": persist, "after": after}), &mut w)?;
                            run_id += 1;
                            n += 1;
                        }
                        k += io_stride;
                    }
                    // double faults: a trait-level fault plus an I/O fault on the error path
                    if j["double"].as_bool().unwrap_or(false) {
                        for k in 0..ngates {
                            for io in [1i64, 2, 3, 5, 8] {
                                spec.iofault = Some((io, 5, false, false));
                                let r = run_round(&spec, Policy::Prefix(&[]), vec![(1, k, Decision::FailBefore)], run_id, &scratch)?;
                                emit(r, json!({"sweep": "double", "gate": k, "io": io}), &mut w)?;
                                run_id += 1;
                                n += 1;
                            }
                        }
                    }
                    spec.iofault = None;
                }
                rounds += n as i64;
                per_job.push(json!({"id": j["id"], "rounds": n, "gates": ngates, "iocalls": nio}));
            }
            "slow" => {
                // a slow disk: one I/O call of the request takes `ms` longer (first call, a middle one, the last but one).
                // Whatever the server answers meanwhile, an answer that is not a success means that nothing changes - also later
                let mut spec = spec;
                let probe = run_round(&spec, Policy::Prefix(&[]), vec![], run_id, &scratch)?;
                let nio = probe.event["iocount"].as_i64().unwrap_or(-1);
                emit(probe, json!({"sweep": "probe"}), &mut w)?;
                run_id += 1;
                let ms = j["delay_ms"].as_i64().unwrap_or(6000);
                let mut n = 1usize;
                let mut ats: Vec<i64> = vec![1, nio / 2, nio - 1];
                ats.retain(|a| *a >= 1 && *a <= nio);
                ats.dedup();
                for at in ats {
                    spec.iodelay = Some((at, ms));
                    let r = run_round(&spec, Policy::Prefix(&[]), vec![], run_id, &scratch)?;
                    emit(r, json!({"sweep": "slow", "at": at, "ms": ms}), &mut w)?;
                    run_id += 1;
                    n += 1;
                }
                rounds += n as i64;
                per_job.push(json!({"id": j["id"], "rounds": n, "iocalls": nio}));
            }
            "lock" => {
                // C05: the write lock is held by somebody else for a while - for k lock attempts, k around every multiple of
                // what ONE begin of a transaction waits out before it gives up (measured first): whatever retry loop the
                // storage has, the request either runs after the contention or fails with nothing done
                let mut spec = spec;
                spec.lockbusy = Some(1_000_000);
                let probe = run_round(&spec, Policy::Prefix(&[]), vec![], run_id, &scratch)?;
                let k1 = probe.event["lockbusy"]["refused"].as_i64().unwrap_or(0);
                emit(probe, json!({"sweep": "lock", "n": 1_000_000}), &mut w)?;
                run_id += 1;
                let mut n = 1usize;
                // the probe request may have begun several transactions: use the smallest plausible unit too
                let mut units: Vec<i64> = vec![k1];
                for d in 2..=4 {
                    if k1 % d == 0 {
                        units.push(k1 / d);
                    }
                }
                let mut ks: Vec<i64> = vec![1, 2, 3, 7];
                for u in units {
                    if u < 2 {
                        continue;
                    }
                    for m in 1..=6 {
                        for dlt in [-1i64, 0, 1, 2] {
                            ks.push(m * u + dlt);
                        }
                    }
                }
                ks.sort();
                ks.dedup();
                for k in ks.into_iter().filter(|k| *k > 0) {
                    spec.lockbusy = Some(k);
                    let r = run_round(&spec, Policy::Prefix(&[]), vec![], run_id, &scratch)?;
                    emit(r, json!({"sweep": "lock", "n": k, "unit": k1}), &mut w)?;
                    run_id += 1;
                    n += 1;
                }
                rounds += n as i64;
                per_job.push(json!({"id": j["id"], "rounds": n, "lock_attempts_per_request": k1}));
            }
            "dfs" => {
                // bounded-exhaustive stateless exploration at gate granularity
                let max_rounds = j["max_rounds"].as_u64().unwrap_or(400) as usize;
                let mut stack: Vec<Vec<usize>> = vec![vec![]];
                let mut n = 0usize;
                let mut complete = true;
                while let Some(prefix) = stack.pop() {
                    if n >= max_rounds {
                        complete = false;
                        break;
                    }
                    let r = run_round(&spec, Policy::Prefix(&prefix), faults.clone(), run_id, &scratch)?;
                    // a round in which a request was never answered settles the matter for this pair of requests: every further
                    // round would wait as long again
                    let dead = r.event["timeouts"].as_array().map(|a| !a.is_empty()).unwrap_or(false);
                    if dead {
                        let picks: Vec<usize> = r.decisions.iter().map(|d| d.1).collect();
                        emit(r, json!({"choices": picks, "stopped": "a request was never answered"}), &mut w)?;
                        run_id += 1;
                        n += 1;
                        rounds += 1;
                        complete = false;
                        break;
                    }
                    // branch on every decision point beyond the prefix
                    for (k, (choices, pick)) in r.decisions.iter().enumerate() {
                        if k < prefix.len() {
                            continue;
                        }
                        for c in choices {
                            if c != pick {
                                let mut p: Vec<usize> = r.decisions[..k].iter().map(|d| d.1).collect();
                                p.push(*c);
                                stack.push(p);
                            }
                        }
                    }
                    let picks: Vec<usize> = r.decisions.iter().map(|d| d.1).collect();
                    emit(r, json!({"choices": picks}), &mut w)?;
                    run_id += 1;
                    n += 1;
                    rounds += 1;
                }
                per_job.push(json!({"id": j["id"], "rounds": n, "complete": complete}));
            }
            _ => {
                let n = j["rounds"].as_u64().unwrap_or(20);
                let s0 = j["rseed"].as_u64().unwrap_or(1);
                for k in 0..n {
                    let r = run_round(&spec, Policy::Random(s0.wrapping_mul(6364136223846793005).wrapping_add(k.wrapping_mul(1442695040888963407).wrapping_add(1))), faults.clone(), run_id, &scratch)?;
                    let picks: Vec<usize> = r.decisions.iter().map(|d| d.1).collect();
                    let dead = r.event["timeouts"].as_array().map(|a| !a.is_empty()).unwrap_or(false);
                    emit(r, json!({"choices": picks}), &mut w)?;
                    run_id += 1;
                    rounds += 1;
                    if dead {
                        break;
                    }
                }
                per_job.push(json!({"id": j["id"], "rounds": n}));
            }
        }
    }
    w.flush()?;
    let _ = std::fs::remove_dir_all(&scratch);
    println!("{}", json!({"rounds": rounds, "jobs": per_job}));
    Ok(0)
}
