//! Crash engine (C04).
//!  crashrun: executes a request history on a SQLite data directory with NO state dumps (a dump
//!            opens connections and would itself checkpoint); before every request an Intent
//!            event and after it an Ack event are written and flushed.  The LD_PRELOAD shim
//!            numbers / logs every file-system call of the database and can kill the process
//!            just before call k (TCSS_CRASH_AT).
//!  recover:  opens a crash image with the real code in a fresh process (schema setup re-run),
//!            runs PRAGMA integrity_check, projects the state, issues a few further requests,
//!            and appends these events to the prefix of the history trace.
use crate::base::*;
use crate::drivers::*;
use crate::seq::{big_payload, Runner};
use crate::shimapi;
use serde_json::{json, Value};
use std::io::Write;
use uuid::Uuid;

fn flush_event(w: &mut std::fs::File, ev: &Value) -> anyhow::Result<()> {
    let mut line = ev.to_string();
    line.push('\n');
    w.write_all(line.as_bytes())?;
    Ok(())
}

pub fn crashrun(plan_path: &str, out_path: &str) -> anyhow::Result<i32> {
    let job: Value = serde_json::from_reader(std::io::BufReader::new(std::fs::File::open(plan_path)?))?;
    silence_panics();
    let mut w = std::fs::File::create(out_path)?;
    let dir = job["dir"].as_str().ok_or_else(|| anyhow::anyhow!("crashrun needs dir"))?.to_string();
    std::fs::create_dir_all(&dir)?;
    let scratch = std::path::PathBuf::from(&dir);
    // the storage is opened here: database creation is part of the numbered I/O
    let mut r = Runner::new(&job, &scratch)?;
    let ncl = r.clients.len();
    let absent: Vec<Value> = (0..ncl).map(|_| CsDump::default().to_json()).collect();
    flush_event(&mut w, &json!({
        "ev": "Reset", "run": r.run, "i": -1, "day": 0,
        "req": {"op": "Reset", "c": 0, "arg": 0, "tok": 0, "lvl": r.driver_kind},
        "resp": RespRec::kind("reset").to_json(), "st": absent, "div": false,
        "cfg": {"days": r.days, "versions": r.versions},
        "clients": r.clients.iter().map(|c| c.to_string()).collect::<Vec<_>>(),
        "salt": r.run + 1, "io": shimapi::io_count(), "t0": r.tb.t0,
    }))?;
    let mut hold: Option<rusqlite::Connection> = None;
    let steps = job["steps"].as_array().cloned().unwrap_or_default();
    for (i, s) in steps.iter().enumerate() {
        let op = s["op"].as_str().unwrap_or("");
        match op {
            "Hold" => {
                // a second, idle connection: the WAL now survives the end of each transaction
                let c = rusqlite::Connection::open(std::path::Path::new(&dir).join("taskchampion-sync-server.sqlite3"))?;
                let _: i64 = c.query_row("SELECT count(*) FROM clients", [], |r| r.get(0)).unwrap_or(0);
                hold = Some(c);
                continue;
            }
            "Unhold" => {
                hold = None;
                continue;
            }
            "Reopen" => {
                r.close();
                r.open()?;
                continue;
            }
            _ => {}
        }
        let cnum = s["c"].as_i64().unwrap_or(1);
        let ci = (cnum - 1) as usize;
        let c = r.clients[ci];
        let a = if s.get("arg").is_some() { r.resolve_pub(&s["arg"], ci) } else { Uuid::nil() };
        let an = r.namer.name(a);
        let mut tok = 0i64;
        let mut size = 0u64;
        let mut body = vec![];
        if op == "AddVersion" || op == "AddSnapshot" {
            tok = r.pay.fresh_tok();
            size = s["size"].as_u64().unwrap_or(0);
            body = if size > 0 { big_payload(tok + (r.run << 20), size as usize) } else { r.pay.make(tok) };
            r.pay.register(tok, body.clone());
        }
        let req = json!({"op": op, "c": cnum, "arg": an, "tok": tok, "lvl": r.driver.as_ref().unwrap().level()});
        flush_event(&mut w, &json!({"ev": "Intent", "run": r.run, "i": i, "day": 0, "req": req, "argu": a.to_string(), "size": size,
            "io0": shimapi::io_count()}))?;
        let d = r.driver.as_mut().unwrap();
        let (out, _) = match op {
            "AddVersion" => d.add_version(c, a, body),
            "AddSnapshot" => d.add_snapshot(c, a, body),
            "GetChildVersion" => d.get_child_version(c, a),
            "GetSnapshot" => d.get_snapshot(c),
            o => anyhow::bail!("crashrun: unknown op {o}"),
        };
        if let Out::Ok { vid, .. } = &out {
            r.ledger.acc[ci].push((*vid, a));
            r.ledger.toks[ci].push(tok);
        }
        let before = r.namer.universe().len();
        let resp = crate::seq::out_to_resp(&out, &mut r.namer, &r.pay);
        let names: Vec<Value> = r.namer.universe()[before..].to_vec().iter().map(|u| json!([u.to_string(), r.namer.name(*u)])).collect();
        let mut rj = resp.to_json();
        if !resp.msg.is_empty() {
            rj["msg"] = json!(resp.msg);
        }
        flush_event(&mut w, &json!({"ev": "Ack", "run": r.run, "i": i, "day": 0, "req": req, "resp": rj, "names": names,
            "io1": shimapi::io_count()}))?;
    }
    drop(hold);
    r.close();
    println!("{}", json!({"steps": steps.len(), "iocalls": shimapi::io_count()}));
    Ok(0)
}

/// recover <dir> <prefix-trace> <out> : the events of the prefix are copied, then Crash / Recovered /
/// continuation events are appended.
pub fn recover(plan_path: &str, out_path: &str) -> anyhow::Result<i32> {
    let plan: Value = serde_json::from_reader(std::io::BufReader::new(std::fs::File::open(plan_path)?))?;
    silence_panics();
    let mut w = std::io::BufWriter::new(std::fs::File::create(out_path)?);
    let mut n = 0;
    for img in plan["images"].as_array().cloned().unwrap_or_default() {
        let prefix: Vec<Value> = img["prefix"].as_array().cloned().unwrap_or_default();
        if prefix.is_empty() {
            continue;
        }
        let reset = &prefix[0];
        let run = img["run"].as_i64().unwrap_or(0);
        let clients: Vec<Uuid> = reset["clients"].as_array().map(|a| a.iter().filter_map(|x| Uuid::parse_str(x.as_str().unwrap_or("")).ok()).collect()).unwrap_or_default();
        let job = json!({"id": "recover", "run": reset["run"], "backend": "sqlite", "driver": reset["req"]["lvl"], "dir": img["dir"],
            "cfg": reset["cfg"], "nclients": clients.len(), "first_free": 1, "steps": []});
        // copy the prefix, renumbered to this image's run
        for e in &prefix {
            let mut e2 = e.clone();
            e2["run"] = json!(run);
            writeln!(w, "{}", e2)?;
        }
        writeln!(w, "{}", json!({"ev": "Crash", "run": run, "i": 0, "k": img["k"], "variant": img["variant"]}))?;
        // the restart a deployment sees: the REAL executable starts on the directory, serves one request and is killed;
        // what it did to the files at start-up is part of recovery, and the state is then read as usual
        let mut binstart = json!({"started": "not-asked"});
        if let (Some(path), Some(addr)) = (img["via_binary"].as_str(), img["listen"].as_str()) {
            let spec = json!({"path": path, "listen": [addr], "args": ["--listen", addr, "--data-dir", img["dir"]]});
            match crate::sock::start_binary(&spec) {
                Ok(mut d) => {
                    use crate::drivers::Driver;
                    let (out, _) = d.get_snapshot(clients.first().copied().unwrap_or_else(Uuid::new_v4));
                    binstart = json!({"started": "yes", "probe": format!("{out:?}").chars().take(80).collect::<String>()});
                    d.stop();
                }
                Err(e) => binstart = json!({"started": "no", "error": format!("{e:#}")}),
            }
        }
        // open with the real code (schema set-up re-runs); any failure is an observation
        let opened = std::panic::catch_unwind(std::panic::AssertUnwindSafe(|| Runner::new(&job, std::path::Path::new("/nonexistent"))));
        let mut r = match opened {
            Ok(Ok(r)) => r,
            Ok(Err(e)) => {
                writeln!(w, "{}", json!({"ev": "Recovered", "run": run, "i": 0, "day": 0, "integrity": format!("open failed: {e:#}"), "st": []}))?;
                n += 1;
                continue;
            }
            Err(_) => {
                writeln!(w, "{}", json!({"ev": "Recovered", "run": run, "i": 0, "day": 0, "integrity": "open panicked", "st": []}))?;
                n += 1;
                continue;
            }
        };
        r.clients = clients.clone();
        r.run = run;
        if let Some(t0) = reset["t0"].as_i64() {
            r.tb = TimeBase { t0 }; // days are counted from the start of the history process
        }
        // names and payloads of the dead process
        let salt = reset["salt"].as_u64().unwrap_or(1);
        r.pay = Payloads::new(salt);
        for e in &prefix {
            if e["ev"] == "Intent" {
                if let Some(u) = e["argu"].as_str().and_then(|x| Uuid::parse_str(x).ok()) {
                    r.namer.bind(e["req"]["arg"].as_i64().unwrap_or(0), u);
                }
                let tok = e["req"]["tok"].as_i64().unwrap_or(0);
                if tok > 0 {
                    let size = e["size"].as_u64().unwrap_or(0);
                    if size > 0 {
                        let b = big_payload(tok + (reset["run"].as_i64().unwrap_or(0) << 20), size as usize);
                        r.pay.register(tok, b);
                    } else {
                        r.pay.make(tok);
                    }
                    while r.pay.fresh_tok() < tok {}
                }
            }
            if e["ev"] == "Ack" {
                for nm in e["names"].as_array().cloned().unwrap_or_default() {
                    if let Some(u) = nm[0].as_str().and_then(|x| Uuid::parse_str(x).ok()) {
                        r.namer.bind(nm[1].as_i64().unwrap_or(0), u);
                    }
                }
                if e["resp"]["kind"] == "ok" {
                    let ci = (e["req"]["c"].as_i64().unwrap_or(1) - 1) as usize;
                    let v = r.namer.uuid(e["resp"]["vid"].as_i64().unwrap_or(0));
                    let a = r.namer.uuid(e["req"]["arg"].as_i64().unwrap_or(0));
                    r.ledger.acc[ci].push((v, a));
                    r.ledger.toks[ci].push(e["req"]["tok"].as_i64().unwrap_or(0));
                }
            }
        }
        // integrity + raw ids (so that rows nobody was told about are projected too)
        let dbfile = std::path::Path::new(img["dir"].as_str().unwrap_or("")).join("taskchampion-sync-server.sqlite3");
        let integrity = (|| -> rusqlite::Result<String> {
            let con = rusqlite::Connection::open(&dbfile)?;
            let res: String = con.query_row("PRAGMA integrity_check", [], |row| row.get(0))?;
            let mut st = con.prepare("SELECT CAST(version_id AS TEXT), CAST(parent_version_id AS TEXT) FROM versions")?;
            let rows: Vec<(String, String)> = st.query_map([], |row| Ok((row.get(0)?, row.get(1)?)))?.collect::<rusqlite::Result<_>>()?;
            drop(st);
            for (a, b) in rows {
                for x in [a, b] {
                    if let Ok(u) = Uuid::parse_str(&x) {
                        r.namer.name(u);
                    }
                }
            }
            Ok(res)
        })()
        .unwrap_or_else(|e| format!("integrity_check failed: {e}"));
        let ds = r.dump();
        r.last = ds.clone();
        let integrity = if binstart["started"] == "no" { format!("the server executable did not start on the directory: {}", binstart["error"]) } else { integrity };
        writeln!(w, "{}", json!({"ev": "Recovered", "run": run, "i": 0, "day": 0, "integrity": integrity, "st": Runner::st_json(&ds), "binstart": binstart}))?;
        // continuation: the store must behave
        let cont = plan["continuation"].as_array().cloned().unwrap_or_default();
        for (i, s) in cont.iter().enumerate() {
            let (mut ev, _) = r.step(s, 10_000 + i);
            ev["run"] = json!(run);
            writeln!(w, "{}", ev)?;
        }
        r.close();
        n += 1;
    }
    w.flush()?;
    println!("{}", json!({"images": n}));
    Ok(0)
}
