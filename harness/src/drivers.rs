//! Drivers: the four protocol operations through the library (`Server`) or through the real
//! HTTP handlers in process (`WebServer::config` + `actix_web::test`).
use actix_web::dev::{Service, ServiceResponse};
use actix_web::{test, App};
use serde_json::{json, Value};
use std::collections::HashSet;
use std::panic::{catch_unwind, AssertUnwindSafe};
use taskchampion_sync_server::WebServer;
use taskchampion_sync_server_core::{
    AddVersionResult, GetVersionResult, Server, ServerConfig, ServerError, SnapshotUrgency,
};
use uuid::Uuid;

pub const HS_CT: &str = "application/vnd.taskchampion.history-segment";
pub const SNAP_CT: &str = "application/vnd.taskchampion.snapshot";

/// Raw outcome of one operation, before renaming.
#[derive(Clone, Debug)]
pub enum Out {
    Ok { vid: Uuid, urg: String },
    Conflict { vid: Uuid },
    NoSuchClient,
    Found { vid: Uuid, parent: Uuid, data: Vec<u8> },
    Nf,
    Gone,
    SnapOk,
    Snap { vid: Uuid, data: Vec<u8> },
    Created,
    Refused { status: u16 },
    Error { msg: String },
    Panic { msg: String },
}

/// What came over HTTP (absent for the library driver).
#[derive(Clone, Debug, Default)]
pub struct HttpInfo {
    pub status: u16,
    pub headers: Vec<(String, String)>,
    pub body_len: usize,
}

impl HttpInfo {
    pub fn get(&self, name: &str) -> Option<&str> {
        let n = name.to_ascii_lowercase();
        self.headers.iter().find(|(k, _)| k.to_ascii_lowercase() == n).map(|(_, v)| v.as_str())
    }
    pub fn count(&self, name: &str) -> usize {
        let n = name.to_ascii_lowercase();
        self.headers.iter().filter(|(k, _)| k.to_ascii_lowercase() == n).count()
    }
    /// Trace form: ids as the run's abstract numbers (-1 header absent, -2 not a UUID), whether the
    /// id text is the canonical hyphenated lower-case form, header multiplicities.
    pub fn to_json(&self, namer: &mut crate::base::Namer, btok: i64) -> Value {
        let mut idf = |h: &str| -> (i64, bool) {
            match self.get(h) {
                None => (-1, false),
                Some(t) => match Uuid::parse_str(t) {
                    Ok(u) => (namer.name(u), u.to_string() == t),
                    Err(_) => (-2, false),
                },
            }
        };
        let (xv, xvc) = idf("x-version-id");
        let (xp, xpc) = idf("x-parent-version-id");
        json!({
            "status": self.status,
            "xv": xv, "xvc": xvc, "xp": xp, "xpc": xpc,
            "xs": self.get("x-snapshot-request").unwrap_or(""),
            "ct": self.get("content-type").unwrap_or(""),
            "cc": self.get("cache-control").unwrap_or(""),
            "ccns": self.headers.iter().filter(|(k, _)| k.eq_ignore_ascii_case("cache-control"))
                .any(|(_, v)| v.split(',').any(|d| d.trim().eq_ignore_ascii_case("no-store"))),
            "nxv": self.count("x-version-id"), "nxp": self.count("x-parent-version-id"),
            "nxs": self.count("x-snapshot-request"), "ncc": self.count("cache-control"),
            "blen": self.body_len, "btok": btok,
        })
    }
}

pub trait Driver {
    fn add_version(&mut self, c: Uuid, p: Uuid, body: Vec<u8>) -> (Out, Option<HttpInfo>);
    fn get_child_version(&mut self, c: Uuid, p: Uuid) -> (Out, Option<HttpInfo>);
    fn add_snapshot(&mut self, c: Uuid, v: Uuid, body: Vec<u8>) -> (Out, Option<HttpInfo>);
    fn get_snapshot(&mut self, c: Uuid) -> (Out, Option<HttpInfo>);
    fn level(&self) -> &'static str;
    /// send a fully spelled-out HTTP request (HTTP drivers only)
    fn raw(&mut self, _r: &RawReq) -> Option<Result<(HttpInfo, Vec<u8>), String>> {
        None
    }
}

pub fn urg_name(u: SnapshotUrgency) -> String {
    match u {
        SnapshotUrgency::None => "none",
        SnapshotUrgency::Low => "low",
        SnapshotUrgency::High => "high",
    }
    .to_string()
}

fn panic_msg(e: Box<dyn std::any::Any + Send>) -> String {
    if let Some(s) = e.downcast_ref::<&str>() {
        s.to_string()
    } else if let Some(s) = e.downcast_ref::<String>() {
        s.clone()
    } else {
        "panic".to_string()
    }
}

fn guard<F: FnOnce() -> Out>(f: F) -> Out {
    match catch_unwind(AssertUnwindSafe(f)) {
        Ok(o) => o,
        Err(e) => Out::Panic { msg: panic_msg(e) },
    }
}

// ------------------------------------------------------------------ library

pub struct LibDriver {
    pub server: std::sync::Arc<Server>,
}

impl LibDriver {
    pub fn new<ST: taskchampion_sync_server_core::Storage + 'static>(cfg: ServerConfig, storage: ST) -> Self {
        LibDriver { server: std::sync::Arc::new(Server::new(cfg, storage)) }
    }
    /// several callers (threads) on ONE server object, as the workers of the real executable are
    pub fn shared(server: std::sync::Arc<Server>) -> Self {
        LibDriver { server }
    }
}

fn se(e: ServerError) -> Out {
    match e {
        ServerError::NoSuchClient => Out::NoSuchClient,
        ServerError::Other(e) => Out::Error { msg: format!("{e:#}") },
    }
}

impl Driver for LibDriver {
    fn add_version(&mut self, c: Uuid, p: Uuid, body: Vec<u8>) -> (Out, Option<HttpInfo>) {
        let s = &self.server;
        (
            guard(|| match s.add_version(c, p, body) {
                Ok((AddVersionResult::Ok(v), u)) => Out::Ok { vid: v, urg: urg_name(u) },
                Ok((AddVersionResult::ExpectedParentVersion(v), _)) => Out::Conflict { vid: v },
                Err(e) => se(e),
            }),
            None,
        )
    }
    fn get_child_version(&mut self, c: Uuid, p: Uuid) -> (Out, Option<HttpInfo>) {
        let s = &self.server;
        (
            guard(|| match s.get_child_version(c, p) {
                Ok(GetVersionResult::Success { version_id, parent_version_id, history_segment }) => {
                    Out::Found { vid: version_id, parent: parent_version_id, data: history_segment }
                }
                Ok(GetVersionResult::NotFound) => Out::Nf,
                Ok(GetVersionResult::Gone) => Out::Gone,
                Err(e) => se(e),
            }),
            None,
        )
    }
    fn add_snapshot(&mut self, c: Uuid, v: Uuid, body: Vec<u8>) -> (Out, Option<HttpInfo>) {
        let s = &self.server;
        (
            guard(|| match s.add_snapshot(c, v, body) {
                Ok(()) => Out::SnapOk,
                Err(e) => se(e),
            }),
            None,
        )
    }
    fn get_snapshot(&mut self, c: Uuid) -> (Out, Option<HttpInfo>) {
        let s = &self.server;
        (
            guard(|| match s.get_snapshot(c) {
                Ok(Some((v, d))) => Out::Snap { vid: v, data: d },
                Ok(None) => Out::Nf,
                Err(e) => se(e),
            }),
            None,
        )
    }
    fn level(&self) -> &'static str {
        "lib"
    }
}

// ------------------------------------------------------------------ HTTP in process

/// A fully spelled-out HTTP request for the in-process service.
#[derive(Clone, Debug, Default)]
pub struct RawReq {
    pub method: String,
    pub uri: String,
    /// header name -> raw bytes value
    pub headers: Vec<(String, Vec<u8>)>,
    pub body: Vec<u8>,
    /// split the body into chunks of these sizes when streaming (empty = one piece)
    pub chunks: Vec<usize>,
    /// the upload breaks after this many chunks (transport error in the middle of the body)
    pub abort_after: Option<usize>,
}

pub struct HttpDriver<S> {
    pub sys: actix_rt::SystemRunner,
    pub app: S,
}

/// an application instance of an EXISTING web server (the per-worker `App` of the real executable: all of them share the
/// server state, hence the one `Server` object)
pub fn make_http_driver_ws(ws: &WebServer) -> HttpDriver<impl Service<actix_http::Request, Response = ServiceResponse, Error = actix_web::Error>> {
    let sys = actix_rt::System::new();
    let app = sys.block_on(test::init_service(App::new().configure(|c| ws.config(c))));
    HttpDriver { sys, app }
}

pub fn make_http_driver<ST: taskchampion_sync_server_core::Storage + 'static>(
    cfg: ServerConfig,
    allow: Option<HashSet<Uuid>>,
    storage: ST,
) -> HttpDriver<impl Service<actix_http::Request, Response = ServiceResponse, Error = actix_web::Error>> {
    let ws = WebServer::new(cfg, allow, storage);
    let sys = actix_rt::System::new();
    let app = sys.block_on(test::init_service(App::new().configure(|c| ws.config(c))));
    HttpDriver { sys, app }
}

impl<S> HttpDriver<S>
where
    S: Service<actix_http::Request, Response = ServiceResponse, Error = actix_web::Error>,
{
    /// Send one request; returns status, headers, body.  A handler panic is reported as Err.
    pub fn call(&mut self, r: &RawReq) -> Result<(HttpInfo, Vec<u8>), String> {
        let mut tr = test::TestRequest::default()
            .method(actix_web::http::Method::from_bytes(r.method.as_bytes()).map_err(|e| e.to_string())?)
            .uri(&r.uri);
        for (k, v) in &r.headers {
            let name = actix_web::http::header::HeaderName::from_bytes(k.as_bytes()).map_err(|e| e.to_string())?;
            let val = actix_web::http::header::HeaderValue::from_bytes(v).map_err(|e| e.to_string())?;
            tr = tr.append_header((name, val));
        }
        let req = if r.chunks.is_empty() {
            tr.set_payload(r.body.clone()).to_request()
        } else {
            // stream the body in the given chunk sizes
            let mut pieces: Vec<actix_web::web::Bytes> = vec![];
            let mut off = 0usize;
            for &n in &r.chunks {
                let end = (off + n).min(r.body.len());
                pieces.push(actix_web::web::Bytes::copy_from_slice(&r.body[off..end]));
                off = end;
            }
            if off < r.body.len() {
                pieces.push(actix_web::web::Bytes::copy_from_slice(&r.body[off..]));
            }
            let (mut tx, payload) = actix_http::h1::Payload::create(true);
            match r.abort_after {
                Some(k) => {
                    for p in pieces.into_iter().take(k) {
                        tx.feed_data(p);
                    }
                    tx.set_error(actix_http::error::PayloadError::Incomplete(None));
                }
                None => {
                    for p in pieces {
                        tx.feed_data(p);
                    }
                    tx.feed_eof();
                }
            }
            let rq = tr.to_request();
            let (rq, _) = rq.replace_payload(actix_http::Payload::from(payload));
            rq
        };
        let app = &self.app;
        let sys = &self.sys;
        let res = catch_unwind(AssertUnwindSafe(|| {
            sys.block_on(async {
                match app.call(req).await {
                    Ok(resp) => {
                        let status = resp.status().as_u16();
                        let headers: Vec<(String, String)> = resp
                            .headers()
                            .iter()
                            .map(|(k, v)| (k.as_str().to_string(), String::from_utf8_lossy(v.as_bytes()).to_string()))
                            .collect();
                        let body = test::read_body(resp).await.to_vec();
                        Ok((HttpInfo { status, headers, body_len: body.len() }, body))
                    }
                    Err(e) => {
                        // an Err from the service is rendered by actix as an error response
                        let resp = e.error_response();
                        let status = resp.status().as_u16();
                        let headers: Vec<(String, String)> = resp
                            .headers()
                            .iter()
                            .map(|(k, v)| (k.as_str().to_string(), String::from_utf8_lossy(v.as_bytes()).to_string()))
                            .collect();
                        Ok((HttpInfo { status, headers, body_len: 0 }, vec![]))
                    }
                }
            })
        }));
        match res {
            Ok(r) => r,
            Err(e) => Err(panic_msg(e)),
        }
    }

    fn std_req(method: &str, uri: String, c: Uuid, ct: Option<&str>, body: Vec<u8>) -> RawReq {
        let mut headers = vec![("X-Client-Id".to_string(), c.to_string().into_bytes())];
        if let Some(ct) = ct {
            headers.push(("Content-Type".to_string(), ct.as_bytes().to_vec()));
        }
        RawReq { method: method.to_string(), uri, headers, body, chunks: vec![], abort_after: None }
    }
}

fn parse_uuid(s: Option<&str>) -> Option<Uuid> {
    s.and_then(|x| Uuid::parse_str(x).ok())
}

/// Decode an HTTP answer of one of the four endpoints into the protocol outcome it encodes.
pub fn decode(op: &str, info: &HttpInfo, body: Vec<u8>) -> Out {
    let st = info.status;
    if st >= 500 {
        return Out::Error { msg: format!("http {st}") };
    }
    match (op, st) {
        ("AddVersion", 200) => match parse_uuid(info.get("x-version-id")) {
            Some(v) => {
                let urg = match info.get("x-snapshot-request") {
                    None => "none".to_string(),
                    Some("urgency=low") => "low".to_string(),
                    Some("urgency=high") => "high".to_string(),
                    Some(o) => format!("?{o}"),
                };
                Out::Ok { vid: v, urg }
            }
            None => Out::Error { msg: "200 without X-Version-Id".into() },
        },
        ("AddVersion", 409) => match parse_uuid(info.get("x-parent-version-id")) {
            Some(v) => Out::Conflict { vid: v },
            None => Out::Error { msg: "409 without X-Parent-Version-Id".into() },
        },
        ("GetChildVersion", 200) => {
            match (parse_uuid(info.get("x-version-id")), parse_uuid(info.get("x-parent-version-id"))) {
                (Some(v), Some(p)) => Out::Found { vid: v, parent: p, data: body },
                _ => Out::Error { msg: "200 without id headers".into() },
            }
        }
        ("GetChildVersion", 404) => Out::Nf,
        ("GetChildVersion", 410) => Out::Gone,
        ("AddSnapshot", 200) => Out::SnapOk,
        ("AddSnapshot", 404) => Out::Nf,
        ("GetSnapshot", 200) => match parse_uuid(info.get("x-version-id")) {
            Some(v) => Out::Snap { vid: v, data: body },
            None => Out::Error { msg: "200 without X-Version-Id".into() },
        },
        ("GetSnapshot", 404) => Out::Nf,
        (_, s) if (400..500).contains(&s) => Out::Refused { status: s },
        (_, s) => Out::Error { msg: format!("unexpected status {s}") },
    }
}

impl<S> Driver for HttpDriver<S>
where
    S: Service<actix_http::Request, Response = ServiceResponse, Error = actix_web::Error>,
{
    fn add_version(&mut self, c: Uuid, p: Uuid, body: Vec<u8>) -> (Out, Option<HttpInfo>) {
        let r = Self::std_req("POST", format!("/v1/client/add-version/{p}"), c, Some(HS_CT), body);
        match self.call(&r) {
            Ok((info, b)) => (decode("AddVersion", &info, b), Some(info)),
            Err(m) => (Out::Panic { msg: m }, None),
        }
    }
    fn get_child_version(&mut self, c: Uuid, p: Uuid) -> (Out, Option<HttpInfo>) {
        let r = Self::std_req("GET", format!("/v1/client/get-child-version/{p}"), c, None, vec![]);
        match self.call(&r) {
            Ok((info, b)) => (decode("GetChildVersion", &info, b), Some(info)),
            Err(m) => (Out::Panic { msg: m }, None),
        }
    }
    fn add_snapshot(&mut self, c: Uuid, v: Uuid, body: Vec<u8>) -> (Out, Option<HttpInfo>) {
        let r = Self::std_req("POST", format!("/v1/client/add-snapshot/{v}"), c, Some(SNAP_CT), body);
        match self.call(&r) {
            Ok((info, b)) => (decode("AddSnapshot", &info, b), Some(info)),
            Err(m) => (Out::Panic { msg: m }, None),
        }
    }
    fn get_snapshot(&mut self, c: Uuid) -> (Out, Option<HttpInfo>) {
        let r = Self::std_req("GET", "/v1/client/snapshot".to_string(), c, None, vec![]);
        match self.call(&r) {
            Ok((info, b)) => (decode("GetSnapshot", &info, b), Some(info)),
            Err(m) => (Out::Panic { msg: m }, None),
        }
    }
    fn level(&self) -> &'static str {
        "http"
    }
    fn raw(&mut self, r: &RawReq) -> Option<Result<(HttpInfo, Vec<u8>), String>> {
        Some(self.call(r))
    }
}
