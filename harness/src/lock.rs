//! Lock-step engines.
//!  * C13: the same history on several storage variants (in-memory, SQLite, SQLite with real
//!    reopen); canonical events are paired index by index.
//!  * C09: two-run non-interference: a multi-client history, then for every client the projection
//!    of the history onto that client re-run alone on a fresh server; the client's responses and
//!    state are paired.  The oracle is the code's own solo behaviour.
//! TLC (spec/TraceLockstep.tla) judges the pairs.
use crate::seq::*;
use serde_json::{json, Value};
use std::io::Write;
use uuid::Uuid;

fn canon_event(ev: &Value) -> Value {
    let st: Vec<Value> = ev["st"]
        .as_array()
        .map(|a| a.iter().map(|c| json!({"e": c["e"], "l": c["l"], "v": c["v"], "s": c["s"]})).collect())
        .unwrap_or_default();
    let mut o = json!({
        "req": {"op": ev["req"]["op"], "c": ev["req"]["c"], "arg": ev["req"]["arg"], "tok": ev["req"]["tok"]},
        "resp": ev["resp"], "st": st,
    });
    if let Some(w) = ev.get("walk") {
        o["walk"] = w.clone();
    }
    if let Some(h) = ev.get("http") {
        o["status"] = h["status"].clone();
    }
    o
}

/// C13: variants = [{"backend":..,"reopen":bool}, ...]; variant 0 is the reference.
pub fn run_variants(job: &Value, scratch: &std::path::Path, w: &mut dyn Write) -> anyhow::Result<Value> {
    let variants = job["variants"].as_array().cloned().unwrap_or_default();
    let steps = job["steps"].as_array().cloned().unwrap_or_default();
    let mut streams: Vec<Vec<Value>> = vec![];
    for (k, v) in variants.iter().enumerate() {
        let mut j = job.clone();
        j["backend"] = v["backend"].clone();
        j["id"] = json!(format!("{}-v{}", job["id"].as_str().unwrap_or("j"), k));
        let reopen = v["reopen"].as_bool().unwrap_or(true);
        let mut r = Runner::new(&j, scratch)?;
        let mut evs = vec![canon_event(&r.reset_event())];
        for (i, s) in steps.iter().enumerate() {
            let mut s2 = s.clone();
            if s["op"] == "Reopen" && !reopen {
                s2 = json!({"op": "Nop"});
            }
            let (ev, _) = if s2["op"] == "Nop" {
                // no reopen in this variant: the event still exists so that indices line up
                let mut e = r.step(&json!({"op": "GetSnapshot", "c": 1}), i).0;
                e["req"] = json!({"op": "Reopen", "c": 0, "arg": 0, "tok": 0});
                e["resp"] = json!({"kind": "reopened", "vid": 0, "parent": 0, "tok": 0, "urg": ""});
                if let Some(o) = e.as_object_mut() {
                    o.remove("http");
                }
                (e, false)
            } else {
                r.step(&s2, i)
            };
            if ev.get("toolerr").is_some() {
                r.cleanup();
                anyhow::bail!("tool error: {}", ev["toolerr"]);
            }
            evs.push(canon_event(&ev));
        }
        r.set_day(0);
        r.cleanup();
        streams.push(evs);
    }
    let run = job["run"].as_i64().unwrap_or(0);
    let mut n = 0;
    for k in 1..streams.len() {
        for i in 0..streams[0].len() {
            let ev = json!({"ev": "Pair", "prop": "C13", "run": run, "i": i as i64 - 1,
                "va": variants[0], "vb": variants[k], "a": streams[0][i], "b": streams[k][i]});
            writeln!(w, "{}", ev)?;
            n += 1;
        }
    }
    Ok(json!({"id": job["id"], "run": run, "pairs": n, "steps": steps.len()}))
}

fn fnv(bytes: &[u8]) -> String {
    let mut h: u64 = 0xcbf29ce484222325;
    for b in bytes {
        h ^= *b as u64;
        h = h.wrapping_mul(0x100000001b3);
    }
    format!("{:016x}:{}", h, bytes.len())
}

/// canonical id for the two-run comparison: own versions by acceptance index, nil, else the raw uuid
fn cid(u: Uuid, own: &[(Uuid, Uuid)]) -> Value {
    // always a string: TLC refuses to compare an integer with a string
    if u.is_nil() {
        return json!("nil");
    }
    if let Some(k) = own.iter().position(|x| x.0 == u) {
        return json!(format!("own:{}", k + 1));
    }
    json!(u.to_string())
}

/// observable of one step for client c: response and the client's own state, canonically
fn observe(r: &mut Runner, ci: usize, ev: &Value) -> Value {
    let own = r.ledger.acc[ci].clone();
    let name_to_uuid = |r: &mut Runner, n: &Value| -> Uuid { r.namer.uuid(n.as_i64().unwrap_or(0)) };
    let resp = &ev["resp"];
    let kind = resp["kind"].as_str().unwrap_or("");
    let mut o = json!({"kind": kind, "urg": resp["urg"]});
    if matches!(kind, "ok" | "conflict" | "found" | "snap") {
        let u = name_to_uuid(r, &resp["vid"]);
        o["vid"] = cid(u, &own);
    }
    if kind == "found" {
        let u = name_to_uuid(r, &resp["parent"]);
        o["parent"] = cid(u, &own);
    }
    if matches!(kind, "found" | "snap") {
        let t = resp["tok"].as_i64().unwrap_or(-1);
        o["data"] = json!(r.pay.bytes_of(t).map(|b| fnv(b)).unwrap_or_else(|| "corrupt".into()));
    }
    if let Some(w) = ev.get("walk") {
        let seq: Vec<Value> = w["seq"]
            .as_array()
            .map(|a| {
                a.iter()
                    .map(|x| {
                        let v = name_to_uuid(r, &x["vid"]);
                        let p = name_to_uuid(r, &x["parent"]);
                        let t = x["tok"].as_i64().unwrap_or(-1);
                        json!({"vid": cid(v, &own), "parent": cid(p, &own), "data": r.pay.bytes_of(t).map(|b| fnv(b)).unwrap_or_else(|| "corrupt".into())})
                    })
                    .collect()
            })
            .unwrap_or_default();
        o["walk"] = json!({"seq": seq, "term": w["term"]});
    }
    // own state, as dumped right after this very request (an Overlap step stands for several requests)
    let d = ev["st"][ci].clone();
    let vs: Vec<Value> = d["v"]
        .as_array()
        .cloned()
        .unwrap_or_default()
        .iter()
        .map(|x| {
            let v = name_to_uuid(r, &x["vid"]);
            let p = name_to_uuid(r, &x["parent"]);
            let t = x["tok"].as_i64().unwrap_or(-1);
            json!({"vid": cid(v, &own), "parent": cid(p, &own), "data": r.pay.bytes_of(t).map(|b| fnv(b)).unwrap_or_else(|| "corrupt".into())})
        })
        .collect();
    let mut vs = vs;
    vs.sort_by_key(|x| x.to_string());
    let lu = name_to_uuid(r, &d["l"]);
    let su = name_to_uuid(r, &d["s"]["vid"]);
    let has = d["s"]["has"].as_bool().unwrap_or(false);
    let stok = d["s"]["tok"].as_i64().unwrap_or(-1);
    o["state"] = json!({"e": d["e"], "l": cid(lu, &own), "v": vs,
        "s": {"has": has, "vid": cid(su, &own), "since": d["s"]["since"], "day": d["s"]["day"],
              "data": r.pay.bytes_of(stok).map(|b| fnv(b)).unwrap_or_else(|| if has { "corrupt".into() } else { "".into() })}});
    o
}

/// C09: two-run non-interference.
pub fn run_ni(job: &Value, scratch: &std::path::Path, w: &mut dyn Write) -> anyhow::Result<Value> {
    let steps = job["steps"].as_array().cloned().unwrap_or_default();
    let ncl = job["nclients"].as_u64().unwrap_or(2) as usize;
    let run = job["run"].as_i64().unwrap_or(0);
    // run A: everybody
    let mut a = Runner::new(job, scratch)?;
    a.reset_event();
    // per step: (client index or None, resolved arg, body, observation)
    let mut rec: Vec<(Option<usize>, Option<Uuid>, Option<Vec<u8>>, Value, Vec<(Uuid, Uuid)>)> = vec![];
    // an "Overlap" step stands for several requests: they are recorded in their order of completion, and a client alone
    // makes the same requests one after the other in that order
    let mut flat: Vec<(usize, Value)> = vec![];
    for (i, s) in steps.iter().enumerate() {
        let own_before: Vec<Vec<(Uuid, Uuid)>> = a.ledger.acc.clone();
        let (evs, stop_a) = a.step_multi(s, i);
        let multi = evs.len() > 1 || s["op"] == "Overlap";
        for (sub, ev) in evs {
            if ev.get("toolerr").is_some() {
                a.cleanup();
                anyhow::bail!("tool error: {}", ev["toolerr"]);
            }
            let c = sub["c"].as_i64().unwrap_or(0);
            let ci = if c >= 1 { Some((c - 1) as usize) } else { None };
            let arg = if ev["req"].get("arg").is_some() && ci.is_some() { Some(a.namer.uuid(ev["req"]["arg"].as_i64().unwrap_or(0))) } else { None };
            let body = ev["req"]["tok"].as_i64().filter(|t| *t > 0).and_then(|t| a.pay.bytes_of(t).cloned());
            let obs = match ci {
                Some(k) => observe(&mut a, k, &ev),
                None => Value::Null,
            };
            // ids are only ever quoted after they were issued: inside an Overlap the ledger after the step serves as well
            let own = if multi { ci.map(|k| a.ledger.acc[k].clone()).unwrap_or_default() } else { ci.map(|k| own_before[k].clone()).unwrap_or_default() };
            rec.push((ci, arg, body, obs, own));
            flat.push((i, sub));
        }
        if stop_a {
            break; // the server stopped answering (the unanswered request is recorded): nothing more to learn from this run
        }
    }
    a.set_day(0);
    a.cleanup();
    // runs B_c: each client alone
    let mut npairs = 0;
    for c in 0..ncl {
        let mut j = job.clone();
        j["id"] = json!(format!("{}-solo{}", job["id"].as_str().unwrap_or("j"), c + 1));
        let mut b = Runner::new(&j, scratch)?;
        b.reset_event();
        for (k, (i, s)) in flat.iter().enumerate() {
            let i = *i;
            let (ci, arg, body, obs_a, own_a) = &rec[k];
            let is_global = matches!(s["op"].as_str().unwrap_or(""), "Tick" | "SetDay" | "SetDayRel" | "Reopen");
            if !is_global && *ci != Some(c) {
                continue;
            }
            let mut s2 = s.clone();
            if let (Some(_), Some(u)) = (ci, arg) {
                // own version ids are translated by acceptance index; any other id is quoted verbatim
                let tu = match own_a.iter().position(|x| x.0 == *u) {
                    Some(k) => b.ledger.acc[c].get(k).map(|x| x.0).unwrap_or(*u),
                    None => *u,
                };
                if s2.get("arg").is_some() {
                    s2["arg"] = json!({"uuid": tu.to_string()});
                }
                if s2.get("from").is_some() {
                    s2["from"] = json!({"uuid": tu.to_string()});
                }
            }
            if let Some(bytes) = body {
                s2["bytes"] = json!(crate::hex(bytes));
            }
            if let Some(o) = s2.as_object_mut() {
                o.remove("exp");
            }
            let (ev, stop_b) = b.step(&s2, i);
            if is_global {
                continue;
            }
            let obs_b = observe(&mut b, c, &ev);
            let pe = json!({"ev": "Pair", "prop": "C09", "run": run, "i": i, "client": c + 1,
                "op": s["op"], "a": obs_a, "b": obs_b});
            writeln!(w, "{}", pe)?;
            npairs += 1;
            if stop_b {
                break;
            }
        }
        b.set_day(0);
        b.cleanup();
    }
    Ok(json!({"id": job["id"], "run": run, "pairs": npairs, "steps": steps.len()}))
}
