//! tcss-harness: drives the real taskchampion-sync-server code with behaviours generated from
//! the TLA+ specification (and with seeded random ones) and records ndjson traces that TLC judges.
#![allow(dead_code)]
mod base;
mod conc;
mod crash;
mod drivers;
mod lock;
mod seq;
mod shimapi;
mod sock;
mod urg;

use serde_json::{json, Value};
use std::io::Write;
use std::sync::atomic::{AtomicUsize, Ordering};
use std::sync::{Arc, Mutex};

pub fn unhex(s: &str) -> Vec<u8> {
    let b = s.as_bytes();
    let mut v = Vec::with_capacity(b.len() / 2);
    let h = |c: u8| -> u8 {
        match c {
            b'0'..=b'9' => c - b'0',
            b'a'..=b'f' => c - b'a' + 10,
            b'A'..=b'F' => c - b'A' + 10,
            _ => 0,
        }
    };
    let mut i = 0;
    while i + 1 < b.len() {
        v.push(h(b[i]) * 16 + h(b[i + 1]));
        i += 2;
    }
    v
}

pub fn hex(b: &[u8]) -> String {
    let mut s = String::with_capacity(b.len() * 2);
    for x in b {
        s.push_str(&format!("{:02x}", x));
    }
    s
}

fn cmd_seq(plan_path: &str, out_prefix: &str) -> anyhow::Result<i32> {
    let plan: Value = serde_json::from_reader(std::io::BufReader::new(std::fs::File::open(plan_path)?))?;
    let jobs: Arc<Vec<Value>> = Arc::new(plan["jobs"].as_array().cloned().unwrap_or_default());
    let threads = plan["threads"].as_u64().unwrap_or(8).max(1) as usize;
    let needs_clock = plan["needs_clock"].as_bool().unwrap_or(false);
    if needs_clock && !shimapi::present() {
        eprintln!("tool error: plan needs the clock shim (LD_PRELOAD build/iofault.so)");
        return Ok(2);
    }
    base::silence_panics();
    let scratch = seq::scratch_root();
    std::fs::create_dir_all(&scratch)?;
    let next = Arc::new(AtomicUsize::new(0));
    let summaries: Arc<Mutex<Vec<Value>>> = Arc::new(Mutex::new(vec![]));
    let errors: Arc<Mutex<Vec<String>>> = Arc::new(Mutex::new(vec![]));
    let mut hs = vec![];
    for t in 0..threads {
        let jobs = jobs.clone();
        let next = next.clone();
        let summaries = summaries.clone();
        let errors = errors.clone();
        let scratch = scratch.clone();
        let path = format!("{out_prefix}.{t}.ndjson");
        hs.push(std::thread::Builder::new().stack_size(16 << 20).spawn(move || {
            let f = std::fs::File::create(&path).expect("create trace file");
            let mut w = std::io::BufWriter::new(f);
            loop {
                let i = next.fetch_add(1, Ordering::SeqCst);
                if i >= jobs.len() {
                    break;
                }
                let res = std::panic::catch_unwind(std::panic::AssertUnwindSafe(|| match jobs[i]["engine"].as_str() {
                    Some("variants") => lock::run_variants(&jobs[i], &scratch, &mut w),
                    Some("ni") => lock::run_ni(&jobs[i], &scratch, &mut w),
                    _ => seq::run_job(&jobs[i], &scratch, &mut w),
                }));
                match res {
                    Ok(Ok(s)) => summaries.lock().unwrap().push(s),
                    Ok(Err(e)) => errors.lock().unwrap().push(format!("job {}: {e:#}", jobs[i]["id"])),
                    // the harness itself gave up on this job: never a silent pass
                    Err(_) => errors.lock().unwrap().push(format!("job {}: the harness panicked", jobs[i]["id"])),
                }
            }
            let _ = w.flush();
        })?);
    }
    for h in hs {
        let _ = h.join();
    }
    let _ = std::fs::remove_dir_all(&scratch);
    let errs = errors.lock().unwrap().clone();
    let sums = summaries.lock().unwrap().clone();
    println!("{}", json!({"summaries": sums, "errors": errs, "threads": threads}));
    Ok(if errs.is_empty() { 0 } else { 2 })
}

fn main() {
    let args: Vec<String> = std::env::args().collect();
    let code = match args.get(1).map(|s| s.as_str()) {
        Some("seq") if args.len() >= 4 => cmd_seq(&args[2], &args[3]),
        Some("conc") if args.len() >= 4 => conc::run(&args[2], &args[3]),
        Some("crashrun") if args.len() >= 4 => crash::crashrun(&args[2], &args[3]),
        Some("recover") if args.len() >= 4 => crash::recover(&args[2], &args[3]),
        Some("urg") if args.len() >= 4 => urg::run(&args[2], &args[3]),
        Some("shim") => {
            println!("{}", json!({"shim": shimapi::present()}));
            Ok(0)
        }
        _ => {
            eprintln!("usage: tcss-harness seq <plan.json> <out-prefix> | shim");
            Ok(2)
        }
    };
    match code {
        Ok(c) => std::process::exit(c),
        Err(e) => {
            eprintln!("tool error: {e:#}");
            std::process::exit(2)
        }
    }
}
