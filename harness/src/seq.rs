//! Sequential engine: executes planned tours (TLC-generated transitions) and histories
//! (symbolic, seeded) on the real code and records one trace event per step.
use crate::base::*;
use crate::drivers::*;
use crate::shimapi;
use serde_json::{json, Value};
use std::collections::HashSet;
use std::io::Write;
use std::path::PathBuf;
use std::sync::Arc;
use taskchampion_sync_server_core::{InMemoryStorage, ServerConfig, Storage};
use taskchampion_sync_server_storage_sqlite::SqliteStorage;
use uuid::Uuid;

pub fn scratch_root() -> PathBuf {
    let base = if std::path::Path::new("/dev/shm").is_dir() {
        PathBuf::from("/dev/shm")
    } else {
        PathBuf::from("/verif/build/scratch")
    };
    base.join(format!("tcss-{}", std::process::id()))
}

pub fn open_backend(kind: &str, dir: &std::path::Path) -> anyhow::Result<Arc<dyn Storage>> {
    Ok(match kind {
        "inmemory" => Arc::new(InMemoryStorage::new()),
        "sqlite" => Arc::new(SqliteStorage::new(dir)?),
        o => anyhow::bail!("unknown backend {o}"),
    })
}

pub fn make_driver(
    kind: &str,
    days: i64,
    versions: u32,
    allow: Option<HashSet<Uuid>>,
    storage: Shared,
) -> Box<dyn Driver> {
    let cfg = ServerConfig { snapshot_days: days, snapshot_versions: versions };
    match kind {
        "lib" => Box::new(LibDriver::new(cfg, storage)),
        _ => Box::new(make_http_driver(cfg, allow, storage)),
    }
}

pub struct Ledger {
    /// accepted versions per client, in acceptance order: (vid, parent)
    pub acc: Vec<Vec<(Uuid, Uuid)>>,
}

pub struct Runner {
    pub job: Value,
    pub run: i64,
    pub backend: String,
    pub driver_kind: String,
    pub days: i64,
    pub versions: u32,
    pub dir: PathBuf,
    pub clients: Vec<Uuid>,
    pub namer: Namer,
    pub pay: Payloads,
    pub tb: TimeBase,
    pub day: i64,
    pub storage: Option<Arc<dyn Storage>>,
    pub driver: Option<Box<dyn Driver>>,
    pub ledger: Ledger,
    pub last: Vec<CsDump>,
    pub allow: Option<HashSet<Uuid>>,
}

pub fn out_to_resp(out: &Out, namer: &mut Namer, pay: &Payloads) -> RespRec {
    match out {
        Out::Ok { vid, urg } => RespRec { kind: "ok".into(), vid: namer.name(*vid), urg: urg.clone(), ..Default::default() },
        Out::Conflict { vid } => RespRec { kind: "conflict".into(), vid: namer.name(*vid), ..Default::default() },
        Out::NoSuchClient => RespRec::kind("nosuchclient"),
        Out::Found { vid, parent, data } => RespRec {
            kind: "found".into(),
            vid: namer.name(*vid),
            parent: namer.name(*parent),
            tok: pay.tok_of(data),
            ..Default::default()
        },
        Out::Nf => RespRec::kind("nf"),
        Out::Gone => RespRec::kind("gone"),
        Out::SnapOk => RespRec::kind("snapok"),
        Out::Snap { vid, data } => RespRec { kind: "snap".into(), vid: namer.name(*vid), tok: pay.tok_of(data), ..Default::default() },
        Out::Created => RespRec::kind("created"),
        Out::Refused { status } => RespRec { kind: "refused".into(), vid: *status as i64, ..Default::default() },
        Out::Error { msg } => RespRec { kind: "error".into(), msg: msg.clone(), ..Default::default() },
        Out::Panic { msg } => RespRec { kind: "panic".into(), msg: msg.clone(), ..Default::default() },
    }
}

impl Runner {
    pub fn new(job: &Value, scratch: &std::path::Path) -> anyhow::Result<Runner> {
        let id = job["id"].as_str().unwrap_or("job").to_string();
        let run = job["run"].as_i64().unwrap_or(0);
        let backend = job["backend"].as_str().unwrap_or("inmemory").to_string();
        let driver_kind = job["driver"].as_str().unwrap_or("lib").to_string();
        let days = job["cfg"]["days"].as_i64().unwrap_or(14);
        let versions = job["cfg"]["versions"].as_u64().unwrap_or(100) as u32;
        let ncl = job["nclients"].as_u64().unwrap_or(2) as usize;
        let dir = scratch.join(&id);
        if backend == "sqlite" {
            let _ = std::fs::remove_dir_all(&dir);
            std::fs::create_dir_all(&dir)?;
        }
        let clients: Vec<Uuid> = (0..ncl).map(|_| Uuid::new_v4()).collect();
        let first_free = job["first_free"].as_i64().unwrap_or(1000);
        shimapi::clock_set_thread(0);
        let tb = TimeBase::now();
        let allow: Option<HashSet<Uuid>> = match &job["allow"] {
            Value::Array(a) => Some(a.iter().filter_map(|x| x.as_u64()).map(|i| clients[(i - 1) as usize]).collect()),
            _ => None,
        };
        let mut r = Runner {
            job: job.clone(),
            run,
            backend,
            driver_kind,
            days,
            versions,
            dir,
            clients,
            namer: Namer::new(first_free),
            pay: Payloads::new(run as u64 + 1),
            tb,
            day: 0,
            storage: None,
            driver: None,
            ledger: Ledger { acc: vec![vec![]; ncl] },
            last: vec![],
            allow,
        };
        r.open()?;
        Ok(r)
    }

    pub fn open(&mut self) -> anyhow::Result<()> {
        let st = open_backend(&self.backend, &self.dir)?;
        self.driver = Some(make_driver(&self.driver_kind, self.days, self.versions, self.allow.clone(), Shared(st.clone())));
        self.storage = Some(st);
        Ok(())
    }

    pub fn close(&mut self) {
        self.driver = None;
        self.storage = None;
    }

    pub fn cleanup(&mut self) {
        self.close();
        if self.backend == "sqlite" {
            let _ = std::fs::remove_dir_all(&self.dir);
        }
    }

    pub fn set_day(&mut self, d: i64) -> bool {
        self.day = d;
        if d == 0 {
            shimapi::clock_set_thread(0);
            return true;
        }
        shimapi::clock_set_thread(d * 86400)
    }

    pub fn dump(&mut self) -> Vec<CsDump> {
        let st = self.storage.as_ref().unwrap().clone();
        let mut ds: Vec<CsDump> = self
            .clients
            .clone()
            .iter()
            .map(|c| dump_client(st.as_ref(), *c, &mut self.namer, &self.pay, self.tb))
            .collect();
        if self.backend == "sqlite" {
            sqlite_raw_extra(&self.dir, &self.clients, &mut ds, &mut self.namer);
        }
        ds
    }

    pub fn st_json(ds: &[CsDump]) -> Value {
        Value::Array(ds.iter().map(|d| d.to_json()).collect())
    }

    fn resolve(&mut self, a: &Value, c: usize) -> Uuid {
        if let Some(n) = a.get("abs").and_then(|x| x.as_i64()) {
            return self.namer.uuid(n);
        }
        let sym = a.get("sym").and_then(|x| x.as_str()).unwrap_or("nil");
        let of = a.get("of").and_then(|x| x.as_u64()).map(|x| (x - 1) as usize).unwrap_or(c);
        let k = a.get("k").and_then(|x| x.as_u64()).unwrap_or(0) as usize;
        let acc = &self.ledger.acc[of.min(self.ledger.acc.len() - 1)];
        match sym {
            "nil" => Uuid::nil(),
            "latest" => acc.last().map(|x| x.0).unwrap_or(Uuid::nil()),
            // k-th version counted back from the latest (0 = latest), clipped to the oldest
            "anc" => {
                if acc.is_empty() {
                    Uuid::nil()
                } else {
                    let i = acc.len() - 1 - k.min(acc.len() - 1);
                    acc[i].0
                }
            }
            "first" => acc.first().map(|x| x.0).unwrap_or(Uuid::nil()),
            "base" => acc.first().map(|x| x.1).unwrap_or(Uuid::nil()),
            "snap" => {
                let n = self.last.get(of).map(|d| if d.s.has { d.s.vid } else { 0 }).unwrap_or(0);
                self.namer.uuid(n)
            }
            "rnd" => self.namer.uuid(900_000 + k as i64),
            "fresh" => Uuid::new_v4(),
            _ => Uuid::nil(),
        }
    }

    /// Execute one step; returns the event and whether the run must stop (divergence from plan).
    pub fn step(&mut self, s: &Value, idx: usize) -> (Value, bool) {
        let mut op = s["op"].as_str().unwrap_or("").to_string();
        if op == "NewClientIfAbsent" {
            let ci0 = (s["c"].as_i64().unwrap_or(1) - 1).max(0) as usize;
            op = if self.last.get(ci0).map(|d| d.e).unwrap_or(false) { "GetSnapshot".into() } else { "NewClient".into() };
        }
        let cnum = s["c"].as_i64().unwrap_or(0);
        let ci = if cnum >= 1 { (cnum - 1) as usize } else { 0 };
        let lvl = self.driver.as_ref().map(|d| d.level()).unwrap_or("lib");
        let mut req = json!({"op": op, "c": cnum, "arg": 0, "tok": 0, "lvl": lvl});
        let mut resp = RespRec::kind("none");
        let mut http: Option<HttpInfo> = None;
        let mut walk = json!({"from": 0, "seq": [], "term": ""});
        let mut tool_err: Option<String> = None;
        match op.as_str() {
            "Tick" => {
                let d = self.day + 1;
                if !self.set_day(d) {
                    tool_err = Some("clock shim not loaded".into());
                }
                resp = RespRec::kind("tick");
            }
            "SetDay" | "SetDayRel" => {
                let d = if op == "SetDayRel" { self.day + s["by"].as_i64().unwrap_or(1) } else { s["day"].as_i64().unwrap_or(0) };
                if !self.set_day(d) {
                    tool_err = Some("clock shim not loaded".into());
                }
                resp = RespRec::kind("tick");
                req["op"] = json!("Tick");
            }
            "Reopen" => {
                if self.backend == "sqlite" {
                    self.close();
                    if let Err(e) = self.open() {
                        resp = RespRec { kind: "error".into(), msg: format!("{e:#}"), ..Default::default() };
                    } else {
                        resp = RespRec::kind("reopened");
                    }
                } else {
                    resp = RespRec::kind("reopened");
                }
            }
            "NewClient" => {
                let st = self.storage.as_ref().unwrap().clone();
                let c = self.clients[ci];
                let r = std::panic::catch_unwind(std::panic::AssertUnwindSafe(|| -> anyhow::Result<()> {
                    let mut txn = st.txn(c)?;
                    txn.new_client(Uuid::nil())?;
                    txn.commit()?;
                    Ok(())
                }));
                resp = match r {
                    Ok(Ok(())) => RespRec::kind("created"),
                    Ok(Err(e)) => RespRec { kind: "error".into(), msg: format!("{e:#}"), ..Default::default() },
                    Err(_) => RespRec::kind("panic"),
                };
            }
            "AddVersion" | "AddSnapshot" => {
                let c = self.clients[ci];
                let a = self.resolve(&s["arg"], ci);
                let tok = self.pay.fresh_tok();
                let body = match s.get("bytes").and_then(|b| b.as_str()) {
                    Some(hex) => {
                        let b = crate::unhex(hex);
                        self.pay.register(tok, b.clone());
                        b
                    }
                    None => self.pay.make(tok),
                };
                req["arg"] = json!(self.namer.name(a));
                req["tok"] = json!(tok);
                let d = self.driver.as_mut().unwrap();
                let (out, h) = if op == "AddVersion" { d.add_version(c, a, body) } else { d.add_snapshot(c, a, body) };
                if let Out::Ok { vid, .. } = &out {
                    if let Some(n) = s["exp"]["vid"].as_i64() {
                        if s["exp"]["kind"].as_str() == Some("ok") {
                            self.namer.bind(n, *vid);
                        }
                    }
                    self.ledger.acc[ci].push((*vid, a));
                }
                resp = out_to_resp(&out, &mut self.namer, &self.pay);
                http = h;
            }
            "GetChildVersion" => {
                let c = self.clients[ci];
                let a = self.resolve(&s["arg"], ci);
                req["arg"] = json!(self.namer.name(a));
                let (out, h) = self.driver.as_mut().unwrap().get_child_version(c, a);
                resp = out_to_resp(&out, &mut self.namer, &self.pay);
                http = h;
            }
            "GetSnapshot" => {
                let c = self.clients[ci];
                let (out, h) = self.driver.as_mut().unwrap().get_snapshot(c);
                resp = out_to_resp(&out, &mut self.namer, &self.pay);
                http = h;
            }
            "Walk" => {
                let c = self.clients[ci];
                let from = self.resolve(&s["from"], ci);
                req["arg"] = json!(self.namer.name(from));
                let cap = self.namer.universe().len() + 3;
                let mut seq: Vec<Value> = vec![];
                let mut cur = from;
                let mut term = "cap".to_string();
                for _ in 0..cap {
                    let (out, _) = self.driver.as_mut().unwrap().get_child_version(c, cur);
                    match out {
                        Out::Found { vid, parent, data } => {
                            seq.push(json!({"vid": self.namer.name(vid), "parent": self.namer.name(parent), "tok": self.pay.tok_of(&data)}));
                            cur = vid;
                        }
                        o => {
                            term = out_to_resp(&o, &mut self.namer, &self.pay).kind;
                            break;
                        }
                    }
                }
                walk = json!({"from": self.namer.name(from), "seq": seq, "term": term});
                resp = RespRec::kind("walk");
            }
            o => {
                tool_err = Some(format!("unknown op {o}"));
            }
        }
        let ds = self.dump();
        // divergence from the planned edge?
        let mut div = false;
        if let Some(exp) = s.get("exp") {
            if let Some(k) = exp["kind"].as_str() {
                if k != resp.kind {
                    div = true;
                }
            }
            if let Some(v) = exp["vid"].as_i64() {
                if matches!(resp.kind.as_str(), "ok" | "conflict" | "found" | "snap") && v != resp.vid {
                    div = true;
                }
            }
            if exp["same"].as_bool() == Some(true) && !self.last.is_empty() {
                for (a, b) in self.last.iter().zip(ds.iter()) {
                    let av: Vec<(i64, i64)> = a.v.iter().map(|r| (r.vid, r.parent)).collect();
                    let bv: Vec<(i64, i64)> = b.v.iter().map(|r| (r.vid, r.parent)).collect();
                    if a.e != b.e || a.l != b.l || av != bv || a.s != b.s {
                        div = true;
                    }
                }
            }
            if let Some(post) = exp["post"].as_array() {
                for (i, p) in post.iter().enumerate() {
                    if i >= ds.len() {
                        break;
                    }
                    let d = &ds[i];
                    let mut pv: Vec<(i64, i64)> =
                        p["v"].as_array().map(|a| a.iter().map(|r| (r["vid"].as_i64().unwrap_or(-9), r["parent"].as_i64().unwrap_or(-9))).collect()).unwrap_or_default();
                    pv.sort();
                    let mut dv: Vec<(i64, i64)> = d.v.iter().map(|r| (r.vid, r.parent)).collect();
                    dv.sort();
                    if p["e"].as_bool() != Some(d.e)
                        || p["l"].as_i64() != Some(d.l)
                        || pv != dv
                        || p["s"]["has"].as_bool() != Some(d.s.has)
                        || (d.s.has
                            && (p["s"]["vid"].as_i64() != Some(d.s.vid)
                                || p["s"]["since"].as_i64() != Some(d.s.since)
                                || p["s"]["day"].as_i64() != Some(d.s.day)))
                    {
                        div = true;
                    }
                }
            }
        }
        let nerr: usize = ds.iter().map(|d| d.err.len()).sum();
        let mut ev = json!({
            "ev": "Op", "run": self.run, "i": idx, "day": self.day,
            "req": req, "resp": resp.to_json(),
            "st": Self::st_json(&ds),
            "div": div,
        });
        if op == "Walk" {
            ev["walk"] = walk;
        }
        if let Some(h) = http.as_ref() {
            ev["http"] = h.to_json();
        }
        if !resp.msg.is_empty() {
            ev["msg"] = json!(resp.msg);
        }
        if nerr > 0 {
            ev["dumperr"] = json!(ds.iter().flat_map(|d| d.err.clone()).collect::<Vec<_>>());
        }
        if let Some(t) = tool_err {
            ev["toolerr"] = json!(t);
        }
        self.last = ds;
        (ev, div)
    }

    pub fn reset_event(&mut self) -> Value {
        let ds = self.dump();
        let ev = json!({
            "ev": "Reset", "run": self.run, "i": -1, "day": 0,
            "req": {"op": "Reset", "c": 0, "arg": 0, "tok": 0, "lvl": self.driver.as_ref().map(|d| d.level()).unwrap_or("lib")},
            "resp": RespRec::kind("reset").to_json(),
            "st": Self::st_json(&ds),
            "div": false,
            "cfg": {"days": self.days, "versions": self.versions},
            "job": self.job["id"], "backend": self.backend, "driver": self.driver_kind,
        });
        self.last = ds;
        ev
    }
}

/// Run one job; events are appended to `w`.  Returns a summary.
pub fn run_job(job: &Value, scratch: &std::path::Path, w: &mut dyn Write) -> anyhow::Result<Value> {
    let mut r = Runner::new(job, scratch)?;
    let mut n = 0usize;
    let mut div_at: i64 = -1;
    let ev = r.reset_event();
    writeln!(w, "{}", ev)?;
    let steps = job["steps"].as_array().cloned().unwrap_or_default();
    for (i, s) in steps.iter().enumerate() {
        let (ev, stop) = r.step(s, i);
        writeln!(w, "{}", ev)?;
        n += 1;
        if ev.get("toolerr").is_some() {
            r.cleanup();
            anyhow::bail!("tool error at step {i}: {}", ev["toolerr"]);
        }
        if stop {
            div_at = i as i64;
            break;
        }
    }
    r.set_day(0);
    r.cleanup();
    Ok(json!({"id": job["id"], "run": r.run, "steps": n, "planned": steps.len(), "div_at": div_at}))
}
