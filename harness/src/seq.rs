//! Sequential engine: executes planned tours (TLC-generated transitions) and histories
//! (symbolic, seeded) on the real code and records one trace event per step.
use crate::base::*;
use crate::drivers::*;
use crate::shimapi;
use serde_json::{json, Value};
use std::collections::HashSet;
use std::io::Write;
use std::path::PathBuf;
use std::sync::Arc;
use taskchampion_sync_server_core::{InMemoryStorage, ServerConfig, Storage};
use taskchampion_sync_server_storage_sqlite::SqliteStorage;
use uuid::Uuid;

pub fn scratch_root() -> PathBuf {
    let base = if std::path::Path::new("/dev/shm").is_dir() {
        PathBuf::from("/dev/shm")
    } else {
        PathBuf::from("/verif/build/scratch")
    };
    base.join(format!("tcss-{}", std::process::id()))
}

pub fn open_backend(kind: &str, dir: &std::path::Path) -> anyhow::Result<Arc<dyn Storage>> {
    Ok(match kind {
        "inmemory" => Arc::new(InMemoryStorage::new()),
        "sqlite" => Arc::new(SqliteStorage::new(dir)?),
        o => anyhow::bail!("unknown backend {o}"),
    })
}

pub fn make_driver(
    kind: &str,
    days: i64,
    versions: u32,
    allow: Option<HashSet<Uuid>>,
    storage: Shared,
) -> Box<dyn Driver> {
    let cfg = ServerConfig { snapshot_days: days, snapshot_versions: versions };
    match kind {
        "lib" => Box::new(LibDriver::new(cfg, storage)),
        _ => Box::new(make_http_driver(cfg, allow, storage)),
    }
}

/// A driver whose server owns the backend object ITSELF (no harness wrapper in between): whatever the backend type
/// overrides or adds beyond `txn` is in force, as in the real executable.  SQLite only (another handle on the same
/// directory serves the harness's own reads).
pub fn make_driver_raw_sqlite(kind: &str, days: i64, versions: u32, dir: &std::path::Path) -> anyhow::Result<Box<dyn Driver>> {
    let cfg = ServerConfig { snapshot_days: days, snapshot_versions: versions };
    let st = taskchampion_sync_server_storage_sqlite::SqliteStorage::new(dir)?;
    Ok(match kind {
        "lib" => Box::new(LibDriver::new(cfg, st)),
        _ => Box::new(make_http_driver(cfg, None, st)),
    })
}

pub struct Ledger {
    /// accepted versions per client, in acceptance order: (vid, parent)
    pub acc: Vec<Vec<(Uuid, Uuid)>>,
    /// payload token of each accepted version (same indexing)
    pub toks: Vec<Vec<i64>>,
}

pub struct Runner {
    pub job: Value,
    pub run: i64,
    pub backend: String,
    pub driver_kind: String,
    pub days: i64,
    pub versions: u32,
    pub dir: PathBuf,
    pub clients: Vec<Uuid>,
    pub namer: Namer,
    pub pay: Payloads,
    pub tb: TimeBase,
    pub day: i64,
    pub storage: Option<Arc<dyn Storage>>,
    pub driver: Option<Box<dyn Driver>>,
    pub ledger: Ledger,
    pub last: Vec<CsDump>,
    pub allow: Option<HashSet<Uuid>>,
    pub allow_nums: Option<Vec<i64>>,
    pub counting: Option<Arc<Counting>>,
    /// library twin on a twin storage, driven in lock step (C14)
    pub twin: Option<Box<Runner>>,
    /// (twin only) AddVersion for an unknown client creates it first, as the HTTP entry point does
    pub emulate_create: bool,
    pub stranger: Uuid,
    /// a second server instance on the same data (requests alternate between the two)
    pub driver2: Option<Box<dyn Driver>>,
    /// outcome of an upload carried out by an "Overlap" step, consumed by the next AddVersion/AddSnapshot step
    pub injected: Option<Injected>,
    /// address of the in-process socket server (socket driver)
    pub sock_addr: Option<String>,
    /// the storage lock was found held for good (socket driver): no further projections are attempted
    pub stuck: bool,
    /// probe the storage lock before every projection (set when requests were left unanswered)
    pub probe_lock: bool,
}

pub struct Injected {
    pub a: Uuid,
    pub tok: i64,
    pub out: Out,
    pub h: Option<HttpInfo>,
}

pub fn out_to_resp(out: &Out, namer: &mut Namer, pay: &Payloads) -> RespRec {
    match out {
        Out::Ok { vid, urg } => RespRec { kind: "ok".into(), vid: namer.name(*vid), urg: urg.clone(), ..Default::default() },
        Out::Conflict { vid } => RespRec { kind: "conflict".into(), vid: namer.name(*vid), ..Default::default() },
        Out::NoSuchClient => RespRec::kind("nosuchclient"),
        Out::Found { vid, parent, data } => RespRec {
            kind: "found".into(),
            vid: namer.name(*vid),
            parent: namer.name(*parent),
            tok: pay.tok_of(data),
            ..Default::default()
        },
        Out::Nf => RespRec::kind("nf"),
        Out::Gone => RespRec::kind("gone"),
        Out::SnapOk => RespRec::kind("snapok"),
        Out::Snap { vid, data } => RespRec { kind: "snap".into(), vid: namer.name(*vid), tok: pay.tok_of(data), ..Default::default() },
        Out::Created => RespRec::kind("created"),
        Out::Refused { status } => RespRec { kind: "refused".into(), vid: *status as i64, ..Default::default() },
        Out::Error { msg } => RespRec { kind: "error".into(), msg: msg.clone(), ..Default::default() },
        Out::Panic { msg } => RespRec { kind: "panic".into(), msg: msg.clone(), ..Default::default() },
    }
}

impl Runner {
    pub fn new(job: &Value, scratch: &std::path::Path) -> anyhow::Result<Runner> {
        let id = job["id"].as_str().unwrap_or("job").to_string();
        let run = job["run"].as_i64().unwrap_or(0);
        let backend = job["backend"].as_str().unwrap_or("inmemory").to_string();
        let driver_kind = job["driver"].as_str().unwrap_or("lib").to_string();
        let days = job["cfg"]["days"].as_i64().unwrap_or(14);
        let versions = job["cfg"]["versions"].as_u64().unwrap_or(100) as u32;
        let ncl = job["nclients"].as_u64().unwrap_or(2) as usize;
        // an explicit "dir" is used as it is (crash images, fixtures) and never deleted
        let dir = match job["dir"].as_str() {
            Some(d) => PathBuf::from(d),
            None => scratch.join(&id),
        };
        if backend == "sqlite" && job["dir"].as_str().is_none() {
            let _ = std::fs::remove_dir_all(&dir);
            std::fs::create_dir_all(&dir)?;
        }
        let clients: Vec<Uuid> = match job["client_uuids"].as_array() {
            Some(a) if a.len() >= ncl => a.iter().take(ncl).filter_map(|x| x.as_str().and_then(|u| Uuid::parse_str(u).ok())).collect(),
            _ => {
                // client ids of one run resemble each other the way ids minted on one host do (time-based UUIDs share their
                // node half): client 2 has the upper 64 bits of client 1, client 3 its lower 64 bits, the stranger both halves
                // of different clients - an id is only ever the id it is
                let mut v: Vec<Uuid> = (0..ncl).map(|_| Uuid::new_v4()).collect();
                if ncl >= 2 {
                    let (h1, _) = v[0].as_u64_pair();
                    let (_, l2) = v[1].as_u64_pair();
                    v[1] = Uuid::from_u64_pair(h1, l2);
                }
                if ncl >= 3 {
                    let (_, l1) = v[0].as_u64_pair();
                    let (h3, _) = v[2].as_u64_pair();
                    v[2] = Uuid::from_u64_pair(h3, l1);
                }
                v
            }
        };
        let first_free = job["first_free"].as_i64().unwrap_or(1000);
        shimapi::clock_set_thread(0);
        let tb = TimeBase::now();
        let allow: Option<HashSet<Uuid>> = match &job["allow"] {
            Value::Array(a) => Some(a.iter().filter_map(|x| x.as_u64()).map(|i| clients[(i - 1) as usize]).collect()),
            _ => None,
        };
        let mut r = Runner {
            job: job.clone(),
            run,
            backend,
            driver_kind,
            days,
            versions,
            dir,
            clients,
            namer: Namer::new(first_free),
            pay: Payloads::new(run as u64 + 1),
            tb,
            day: 0,
            storage: None,
            driver: None,
            ledger: Ledger { acc: vec![vec![]; ncl], toks: vec![vec![]; ncl] },
            last: vec![],
            allow,
            allow_nums: job["allow"].as_array().map(|a| a.iter().filter_map(|x| x.as_i64()).collect()),
            counting: None,
            twin: None,
            emulate_create: false,
            stranger: Uuid::new_v4(),
            driver2: None,
            injected: None,
            sock_addr: None,
            stuck: false,
            probe_lock: false,
        };
        r.open()?;
        if job["twin"].as_bool() == Some(true) {
            let mut tj = job.clone();
            tj["twin"] = json!(false);
            tj["driver"] = json!("lib");
            tj["allow"] = Value::Null;
            tj["id"] = json!(format!("{}-twin", id));
            let mut t = Runner::new(&tj, scratch)?;
            t.emulate_create = true;
            r.twin = Some(Box::new(t));
        }
        Ok(r)
    }

    pub fn open(&mut self) -> anyhow::Result<()> {
        if self.driver_kind == "bin" {
            // the REAL executable: it owns the data directory; the harness opens the same directory
            // afterwards, only to project the stored state
            let mut spec = self.job["bin"].clone();
            if let Some(f) = spec["clock_file"].as_str() {
                std::env::set_var("TCSS_CLOCK_FILE", f);
                let _ = std::fs::write(f, format!("{}\n", self.day * 86400));
            }
            spec["cwd"] = spec["cwd"].clone();
            let d = crate::sock::start_binary(&spec)?;
            self.driver = Some(Box::new(d));
            let st = open_backend("sqlite", &self.dir)?;
            self.counting = None;
            self.storage = Some(st);
            return Ok(());
        }
        let st = open_backend(&self.backend, &self.dir)?;
        let cnt = Counting::new(st.clone());
        if self.driver_kind == "sock" {
            let cfg = ServerConfig { snapshot_days: self.days, snapshot_versions: self.versions };
            let workers = self.job["workers"].as_u64().unwrap_or(2) as usize;
            let d = crate::sock::start_inproc(cfg, self.allow.clone(), Shared(cnt.clone()), workers)?;
            self.sock_addr = d.addrs.first().cloned();
            self.driver = Some(Box::new(d));
        } else {
            self.driver = Some(make_driver(&self.driver_kind, self.days, self.versions, self.allow.clone(), Shared(cnt.clone())));
        }
        if self.job["instances"].as_u64() == Some(2) && self.driver_kind != "sock" {
            // a second server object; for SQLite also a second storage object on the same directory
            let st2 = if self.backend == "sqlite" { open_backend(&self.backend, &self.dir)? } else { st.clone() };
            self.driver2 = Some(make_driver(&self.driver_kind, self.days, self.versions, self.allow.clone(), Shared(st2)));
        }
        self.counting = Some(cnt);
        self.storage = Some(st);
        Ok(())
    }

    pub fn close(&mut self) {
        self.driver2 = None;
        self.driver = None;
        self.counting = None;
        self.storage = None;
    }

    pub fn cleanup(&mut self) {
        if let Some(t) = self.twin.as_mut() {
            t.cleanup();
        }
        self.close();
        if self.backend == "sqlite" && self.job["dir"].as_str().is_none() {
            let _ = std::fs::remove_dir_all(&self.dir);
        }
    }

    pub fn set_day(&mut self, d: i64) -> bool {
        self.day = d;
        if self.driver_kind == "sock" {
            // the server's worker threads read the process-wide offset
            shimapi::clock_set_global(d * 86400);
        }
        if self.driver_kind == "bin" {
            if let Some(f) = self.job["bin"]["clock_file"].as_str() {
                let _ = std::fs::write(f, format!("{}\n", d * 86400));
                // the shim re-reads the file when its mtime changes: make sure it does
                std::thread::sleep(std::time::Duration::from_millis(15));
            }
        }
        if d == 0 {
            shimapi::clock_set_thread(0);
            return true;
        }
        shimapi::clock_set_thread(d * 86400)
    }

    pub fn dump(&mut self) -> Vec<CsDump> {
        if self.storage.is_none() {
            // nothing to project (the server could not be restarted): keep the last projection
            return if self.last.is_empty() { self.clients.iter().map(|_| CsDump::default()).collect() } else { self.last.clone() };
        }
        let st = self.storage.as_ref().unwrap().clone();
        if self.driver_kind == "sock" || self.probe_lock {
            // a handler of the socket server may still sit on the storage lock (it is the code under test): the projection
            // must not wait for it for ever.  A probe transaction is begun on a helper thread first.
            let free = if self.stuck {
                false
            } else {
                let st2 = st.clone();
                let (tx, rx) = std::sync::mpsc::channel();
                std::thread::spawn(move || {
                    let ok = std::panic::catch_unwind(std::panic::AssertUnwindSafe(|| {
                        let _ = st2.txn(Uuid::nil());
                    }))
                    .is_ok();
                    let _ = tx.send(ok);
                });
                rx.recv_timeout(std::time::Duration::from_secs(12)).is_ok()
            };
            if !free {
                self.stuck = true;
                return self
                    .clients
                    .iter()
                    .map(|_| {
                        let mut d = CsDump::default();
                        d.err.push("the stored state cannot be read: the storage lock is not released".to_string());
                        d
                    })
                    .collect();
            }
        }
        let mut ds: Vec<CsDump> = self
            .clients
            .clone()
            .iter()
            .map(|c| {
                // reading the state goes through the code under test as well: if that panics (a poisoned lock, say), the state
                // is unreadable - an observation, not the end of the run
                let r = std::panic::catch_unwind(std::panic::AssertUnwindSafe(|| dump_client(st.as_ref(), *c, &mut self.namer, &self.pay, self.tb)));
                match r {
                    Ok(d) => d,
                    Err(_) => {
                        let mut d = CsDump::default();
                        d.err.push("panic while reading the stored state".to_string());
                        d
                    }
                }
            })
            .collect();
        if self.backend == "sqlite" {
            sqlite_raw_extra(&self.dir, &self.clients, &mut ds, &mut self.namer);
        }
        ds
    }

    pub fn st_json(ds: &[CsDump]) -> Value {
        Value::Array(ds.iter().map(|d| d.to_json()).collect())
    }

    pub fn resolve_pub(&mut self, a: &Value, c: usize) -> Uuid {
        self.resolve(a, c)
    }

    fn resolve(&mut self, a: &Value, c: usize) -> Uuid {
        if let Some(n) = a.get("abs").and_then(|x| x.as_i64()) {
            return self.namer.uuid(n);
        }
        if let Some(u) = a.get("uuid").and_then(|x| x.as_str()).and_then(|x| Uuid::parse_str(x).ok()) {
            return u;
        }
        let sym = a.get("sym").and_then(|x| x.as_str()).unwrap_or("nil");
        let of = a.get("of").and_then(|x| x.as_u64()).map(|x| (x - 1) as usize).unwrap_or(c);
        let k = a.get("k").and_then(|x| x.as_u64()).unwrap_or(0) as usize;
        let acc = &self.ledger.acc[of.min(self.ledger.acc.len() - 1)];
        match sym {
            "nil" => Uuid::nil(),
            "latest" => acc.last().map(|x| x.0).unwrap_or(Uuid::nil()),
            // k-th version counted back from the latest (0 = latest), clipped to the oldest
            "anc" => {
                if acc.is_empty() {
                    Uuid::nil()
                } else {
                    let i = acc.len() - 1 - k.min(acc.len() - 1);
                    acc[i].0
                }
            }
            "first" => acc.first().map(|x| x.0).unwrap_or(Uuid::nil()),
            "base" => acc.first().map(|x| x.1).unwrap_or(Uuid::nil()),
            "snap" => {
                let n = self.last.get(of).map(|d| if d.s.has { d.s.vid } else { 0 }).unwrap_or(0);
                self.namer.uuid(n)
            }
            "rnd" => self.namer.uuid(900_000 + k as i64),
            "fresh" => Uuid::new_v4(),
            _ => Uuid::nil(),
        }
    }

    /// Argument id, payload token and bytes of an upload step (AddVersion / AddSnapshot).
    fn upload_args(&mut self, s: &Value, ci: usize) -> (Uuid, i64, Vec<u8>) {
        // "replay": k = send again exactly the (parent, payload) of the k-th accepted version counted from the latest
        let replay = s.get("replay").and_then(|x| x.as_u64()).and_then(|k| {
            let acc = &self.ledger.acc[ci];
            let toks = &self.ledger.toks[ci];
            if acc.is_empty() || toks.len() != acc.len() {
                None
            } else {
                let i = acc.len() - 1 - (k as usize).min(acc.len() - 1);
                self.pay.bytes_of(toks[i]).cloned().map(|b| (acc[i].1, toks[i], b))
            }
        });
        // "payload_only": the replayed bytes travel with the parent named by "arg" (a replica that is behind
        // uploading bytes the server already holds)
        let a = match &replay {
            Some((p, _, _)) if !s["payload_only"].as_bool().unwrap_or(false) => *p,
            _ => self.resolve(&s["arg"], ci),
        };
        let (tok, body) = match s.get("bytes").and_then(|b| b.as_str()) {
            _ if replay.is_some() => {
                let (_, t, b) = replay.clone().unwrap();
                (t, b)
            }
            Some(hex) => {
                let b = crate::unhex(hex);
                (self.pay.intern(b.clone()), b)
            }
            None if s.get("gen").map(|g| g.is_object()).unwrap_or(false) => {
                let g = &s["gen"];
                let b = gen_payload(g["cls"].as_str().unwrap_or("random"), g["size"].as_u64().unwrap_or(1) as usize,
                                    g["seed"].as_u64().unwrap_or(1) + ((self.run as u64) << 32));
                (self.pay.intern(b.clone()), b)
            }
            None if s.get("size").and_then(|x| x.as_u64()).is_some() => {
                let n = self.pay.fresh_tok();
                let b = big_payload(n + (self.run << 20), s["size"].as_u64().unwrap() as usize);
                (self.pay.intern(b.clone()), b)
            }
            None => {
                let tok = self.pay.fresh_tok();
                (tok, self.pay.make(tok))
            }
        };
        (a, tok, body)
    }

    /// Execute one step that may stand for several requests; returns their events in the order in which the requests
    /// were completed.
    ///
    /// "Overlap": {"uploads": [step..], "order": [i.. | -1], "between": [step..]} - the uploads (AddVersion / AddSnapshot
    /// steps) travel over their own connections in chunked transfer encoding, piece by piece in the given order (entry i =
    /// upload i sends its next piece; its last piece ends the request and its response is read before anything else
    /// happens); entry -1 = the "between" steps are executed now, while the uploads that have begun are still in flight.
    /// A request takes effect when its body is complete, so the recorded order of completion is the sequential history
    /// the responses must be explained by.
    pub fn step_multi(&mut self, s: &Value, idx: usize) -> (Vec<(Value, Value)>, bool) {
        if s["op"] != "Overlap" {
            let (ev, stop) = self.step(s, idx);
            return (vec![(s.clone(), ev)], stop);
        }
        let mut events: Vec<(Value, Value)> = vec![];
        let addr = match self.sock_addr.clone() {
            Some(a) => a,
            None => {
                let mut ev = self.reset_event();
                ev["toolerr"] = json!("Overlap needs the socket driver");
                return (vec![(s.clone(), ev)], true);
            }
        };
        let ups = s["uploads"].as_array().cloned().unwrap_or_default();
        struct Up {
            step: Value,
            ci: usize,
            a: Uuid,
            tok: i64,
            pieces: Vec<Vec<u8>>,
            next: usize,
            conn: Option<crate::sock::Upload>,
        }
        let mut st: Vec<Up> = vec![];
        for u in &ups {
            let cnum = u["c"].as_i64().unwrap_or(1);
            let ci = (cnum - 1).max(0) as usize;
            let (a, tok, body) = self.upload_args(u, ci);
            let npieces = u["pieces"].as_u64().unwrap_or(3).max(1) as usize;
            let mut pieces = vec![];
            let per = (body.len() / npieces).max(1);
            let mut off = 0;
            while off < body.len() {
                let end = if pieces.len() + 1 == npieces { body.len() } else { (off + per).min(body.len()) };
                pieces.push(body[off..end].to_vec());
                off = end;
            }
            st.push(Up { step: u.clone(), ci, a, tok, pieces, next: 0, conn: None });
        }
        let mut stop = false;
        // what happened on the sockets, in order (replayed as the actions of spec/SyncUpload.tla by spec/TraceUpload.tla)
        let mut phases: Vec<Value> = vec![];
        let order: Vec<i64> = s["order"].as_array().map(|a| a.iter().filter_map(|x| x.as_i64()).collect()).unwrap_or_default();
        let finish = |me: &mut Runner, u: &mut Up, events: &mut Vec<(Value, Value)>, idx: usize| -> (bool, String) {
            let op = u.step["op"].as_str().unwrap_or("AddVersion").to_string();
            let res = match u.conn.take() {
                Some(c) => c.finish(),
                None => Err("upload never began".to_string()),
            };
            let (out, h) = match res {
                Ok((info, b)) => (decode(&op, &info, b), Some(info)),
                Err(m) => (Out::Error { msg: format!("socket: {m}") }, None),
            };
            me.injected = Some(Injected { a: u.a, tok: u.tok, out, h });
            let pre_snap = me.last.get(u.ci).map(|d| (d.s.has, d.s.vid)).unwrap_or((false, 0));
            let (ev, stop) = me.step(&u.step, idx);
            // were the stored bytes this upload's bytes?
            let kind = ev["resp"]["kind"].as_str().unwrap_or("").to_string();
            let cst = &ev["st"][u.ci];
            let obs = match kind.as_str() {
                "ok" => {
                    let vid = ev["resp"]["vid"].as_i64().unwrap_or(0);
                    match cst["v"].as_array().and_then(|a| a.iter().find(|x| x["vid"].as_i64() == Some(vid))) {
                        Some(x) if x["tok"].as_i64() == Some(u.tok) => "intact",
                        _ => "altered",
                    }
                }
                "snapok" => {
                    let arg = ev["req"]["arg"].as_i64().unwrap_or(0);
                    if cst["s"]["has"].as_bool() == Some(true) && cst["s"]["vid"].as_i64() == Some(arg) {
                        if pre_snap == (true, arg) {
                            "noinfo" // declined: a snapshot for this version was there already
                        } else if cst["s"]["tok"].as_i64() == Some(u.tok) {
                            "intact"
                        } else {
                            "altered"
                        }
                    } else {
                        "noinfo"
                    }
                }
                "conflict" | "nosuchclient" | "refused" => "noinfo",
                _ => "error",
            };
            events.push((u.step.clone(), ev));
            (stop, obs.to_string())
        };
        for o in order {
            if stop {
                break;
            }
            if o < 0 {
                for b in s["between"].as_array().cloned().unwrap_or_default() {
                    let (ev, st2) = self.step(&b, idx);
                    let served = !matches!(ev["resp"]["kind"].as_str().unwrap_or(""), "error" | "panic" | "timeout" | "none");
                    if st.iter().any(|u| !u.step.is_null() && u.conn.is_some()) {
                        phases.push(json!({"t": "probe", "r": 0, "ok": served}));
                    }
                    events.push((b.clone(), ev));
                    if st2 {
                        stop = true;
                        break;
                    }
                }
                continue;
            }
            let i = o as usize;
            if i >= st.len() || st[i].next > st[i].pieces.len() {
                continue;
            }
            if st[i].conn.is_none() && st[i].next == 0 {
                let u = &st[i];
                let op = u.step["op"].as_str().unwrap_or("AddVersion");
                let (route, ct) = if op == "AddVersion" { ("add-version", HS_CT) } else { ("add-snapshot", SNAP_CT) };
                let c = self.clients[u.ci];
                let head = vec![("X-Client-Id".to_string(), c.to_string().into_bytes()), ("Content-Type".to_string(), ct.as_bytes().to_vec())];
                st[i].conn = crate::sock::Upload::begin(&addr, &format!("/v1/client/{route}/{}", u.a), &head).ok();
                phases.push(json!({"t": "begin", "r": i + 1, "n": st[i].pieces.len()}));
            }
            let k = st[i].next;
            if k < st[i].pieces.len() {
                let piece = st[i].pieces[k].clone();
                if let Some(c) = st[i].conn.as_mut() {
                    c.send(&piece);
                }
                st[i].next += 1;
                if st[i].next < st[i].pieces.len() {
                    phases.push(json!({"t": "piece", "r": i + 1}));
                }
                // give the server the time to take the piece in (the point of the exercise is what it does with it)
                std::thread::sleep(std::time::Duration::from_millis(s["pause_ms"].as_u64().unwrap_or(15)));
            }
            if st[i].next == st[i].pieces.len() {
                st[i].next += 1; // finished
                let mut u = std::mem::replace(&mut st[i], Up { step: Value::Null, ci: 0, a: Uuid::nil(), tok: 0, pieces: vec![], next: 1, conn: None });
                let (st2, obs) = finish(self, &mut u, &mut events, idx);
                phases.push(json!({"t": "apply", "r": i + 1, "obs": obs}));
                if st2 {
                    stop = true;
                }
            }
        }
        // whatever has not been completed by the order is completed now, in index order
        for i in 0..st.len() {
            if stop || st[i].step.is_null() {
                continue;
            }
            while st[i].next < st[i].pieces.len() {
                let piece = st[i].pieces[st[i].next].clone();
                if let Some(c) = st[i].conn.as_mut() {
                    c.send(&piece);
                }
                st[i].next += 1;
                if st[i].next < st[i].pieces.len() {
                    phases.push(json!({"t": "piece", "r": i + 1}));
                }
            }
            let mut u = std::mem::replace(&mut st[i], Up { step: Value::Null, ci: 0, a: Uuid::nil(), tok: 0, pieces: vec![], next: 1, conn: None });
            if u.conn.is_some() {
                let (st2, obs) = finish(self, &mut u, &mut events, idx);
                phases.push(json!({"t": "apply", "r": i + 1, "obs": obs}));
                if st2 {
                    stop = true;
                }
            }
        }
        if let Some(last) = events.last_mut() {
            last.1["overlap"] = json!({"workers": self.job["workers"].as_u64().unwrap_or(2), "phases": phases});
        }
        (events, stop)
    }

    /// Execute one step; returns the event and whether the run must stop (divergence from plan).
    pub fn step(&mut self, s: &Value, idx: usize) -> (Value, bool) {
        // with two server instances, odd steps go through the second one
        let swap = self.driver2.is_some() && idx % 2 == 1;
        if swap {
            std::mem::swap(&mut self.driver, &mut self.driver2);
        }
        let r = self.step_inner(s, idx);
        if swap {
            std::mem::swap(&mut self.driver, &mut self.driver2);
        }
        r
    }

    fn step_inner(&mut self, s: &Value, idx: usize) -> (Value, bool) {
        let mut op = s["op"].as_str().unwrap_or("").to_string();
        if op == "NewClientIfAbsent" {
            let ci0 = (s["c"].as_i64().unwrap_or(1) - 1).max(0) as usize;
            op = if self.last.get(ci0).map(|d| d.e).unwrap_or(false) { "GetSnapshot".into() } else { "NewClient".into() };
        }
        let cnum = s["c"].as_i64().unwrap_or(0);
        let ci = if cnum >= 1 { (cnum - 1) as usize } else { 0 };
        let tok0 = self.pay.peek_tok();
        let lvl = self.driver.as_ref().map(|d| d.level()).unwrap_or("lib");
        let mut req = json!({"op": op, "c": cnum, "arg": 0, "tok": 0, "lvl": lvl});
        let mut resp = RespRec::kind("none");
        let mut http: Option<HttpInfo> = None;
        let mut walk = json!({"from": 0, "seq": [], "term": ""});
        let mut tool_err: Option<String> = None;
        let mut hg: Option<Value> = None;
        let mut btok: i64 = 0;
        let txn0 = self.counting.as_ref().map(|c| c.count()).unwrap_or(0);
        if self.driver.is_none() && matches!(op.as_str(), "AddVersion" | "AddSnapshot" | "GetChildVersion" | "GetSnapshot" | "Walk" | "Raw") {
            // the server could not be (re)started: every request fails
            op = "Down".to_string();
        }
        match op.as_str() {
            "FailStorage" => {
                // every transaction the SERVER begins from now on fails (the harness's own projection does not)
                if let Some(c) = self.counting.as_ref() {
                    c.fail_all.store(s["on"].as_bool().unwrap_or(true), std::sync::atomic::Ordering::SeqCst);
                }
                resp = RespRec::kind("reopened");
                req["op"] = json!("Reopen");
            }
            "Down" => {
                req["op"] = s["op"].clone();
                resp = RespRec { kind: "error".into(), msg: "server not running".into(), ..Default::default() };
            }
            "SetAllow" => {
                // rebuild the web server on the SAME storage with a (new) allow-list
                self.allow_nums = s["allow"].as_array().map(|a| a.iter().filter_map(|x| x.as_i64()).collect());
                self.allow = self.allow_nums.as_ref().map(|a| a.iter().map(|i| self.clients[(*i - 1) as usize]).collect());
                let cnt = self.counting.as_ref().unwrap().clone();
                self.driver = None;
                self.driver = Some(make_driver(&self.driver_kind, self.days, self.versions, self.allow.clone(), Shared(cnt)));
                resp = RespRec::kind("reopened");
                req["op"] = json!("Reopen");
            }
            "Raw" => {
                let g = s["hg"].clone();
                let (rr, cnum2, argn) = self.concretize(&g, s, ci);
                let r = self.driver.as_mut().unwrap().raw(&rr);
                let route = g["route"].as_str().unwrap_or("");
                let method = g["method"].as_str().unwrap_or("");
                let proto_op = match (route, method) {
                    ("av", "POST") => "AddVersion",
                    ("gcv", "GET") => "GetChildVersion",
                    ("as", "POST") => "AddSnapshot",
                    ("gs", "GET") => "GetSnapshot",
                    _ => "",
                };
                let cls = g["cls"].as_str().unwrap_or("no");
                match r {
                    None => tool_err = Some("Raw needs an HTTP driver".into()),
                    Some(Err(m)) => {
                        resp = RespRec { kind: "panic".into(), msg: m, ..Default::default() };
                        req["op"] = json!("Http");
                        req["c"] = json!(0);
                    }
                    Some(Ok((info, body))) => {
                        let st = info.status;
                        let as_proto = !proto_op.is_empty()
                            && (cls == "yes" || (cls == "either" && matches!(st, 200 | 409 | 410)));
                        if as_proto {
                            let out = decode(proto_op, &info, body);
                            if let Out::Ok { vid, .. } = &out {
                                let a = self.namer.uuid(argn);
                                self.ledger.acc[(cnum2 - 1).max(0) as usize].push((*vid, a));
                                let t = rr_tok(&rr, &self.pay).unwrap_or(0);
                                self.ledger.toks[(cnum2 - 1).max(0) as usize].push(t);
                            }
                            if let Out::Found { data, .. } | Out::Snap { data, .. } = &out {
                                btok = self.pay.tok_of(data);
                            }
                            resp = out_to_resp(&out, &mut self.namer, &self.pay);
                            req["op"] = json!(proto_op);
                            req["c"] = json!(cnum2);
                            req["arg"] = json!(argn);
                        } else {
                            resp = if st >= 500 {
                                RespRec { kind: "error".into(), msg: format!("http {st}"), ..Default::default() }
                            } else if st >= 400 {
                                RespRec { kind: "refused".into(), vid: st as i64, ..Default::default() }
                            } else {
                                RespRec { kind: "other".into(), vid: st as i64, ..Default::default() }
                            };
                            req["op"] = json!("Http");
                            req["c"] = json!(0);
                        }
                        http = Some(info);
                    }
                }
                if let Some(t) = rr_tok(&rr, &self.pay) {
                    req["tok"] = json!(t);
                }
                let mut g2 = g.clone();
                g2["c"] = json!(cnum2);
                hg = Some(g2);
            }
            "Tick" => {
                let d = self.day + 1;
                if !self.set_day(d) {
                    tool_err = Some("clock shim not loaded".into());
                }
                resp = RespRec::kind("tick");
            }
            "SetDay" | "SetDayRel" => {
                let d = if op == "SetDayRel" { self.day + s["by"].as_i64().unwrap_or(1) } else { s["day"].as_i64().unwrap_or(0) };
                if !self.set_day(d) {
                    tool_err = Some("clock shim not loaded".into());
                }
                resp = RespRec::kind("tick");
                req["op"] = json!("Tick");
            }
            "Reopen" => {
                if self.backend == "sqlite" || self.driver_kind == "bin" {
                    self.close();
                    if let Err(e) = self.open() {
                        resp = RespRec { kind: "error".into(), msg: format!("{e:#}"), ..Default::default() };
                    } else {
                        resp = RespRec::kind("reopened");
                    }
                } else {
                    resp = RespRec::kind("reopened");
                }
            }
            "NewClient" => {
                let st = self.storage.as_ref().unwrap().clone();
                let c = self.clients[ci];
                let r = std::panic::catch_unwind(std::panic::AssertUnwindSafe(|| -> anyhow::Result<()> {
                    let mut txn = st.txn(c)?;
                    txn.new_client(Uuid::nil())?;
                    txn.commit()?;
                    Ok(())
                }));
                resp = match r {
                    Ok(Ok(())) => RespRec::kind("created"),
                    Ok(Err(e)) => RespRec { kind: "error".into(), msg: format!("{e:#}"), ..Default::default() },
                    Err(_) => RespRec::kind("panic"),
                };
            }
            "AddVersion" | "AddSnapshot" => {
                let c = self.clients[ci];
                // an upload that was carried out by an "Overlap" step: only its bookkeeping happens here
                let inj = self.injected.take();
                let (a, tok, body) = match &inj {
                    Some(i) => (i.a, i.tok, vec![]),
                    None => self.upload_args(s, ci),
                };
                req["arg"] = json!(self.namer.name(a));
                req["tok"] = json!(tok);
                let emu = self.emulate_create && op == "AddVersion";
                let st_for_create = self.storage.as_ref().unwrap().clone();
                let d = self.driver.as_mut().unwrap();
                let chunklist: Vec<usize> = s["chunklist"].as_array().map(|l| l.iter().filter_map(|x| x.as_u64().map(|n| n as usize)).collect()).unwrap_or_default();
                let (mut out, h) = if let Some(i) = inj {
                    (i.out, i.h)
                } else if !chunklist.is_empty() && d.level() == "http" {
                    // the same request with the body delivered in the given chunk sizes
                    let (route, ct) = if op == "AddVersion" { ("add-version", HS_CT) } else { ("add-snapshot", SNAP_CT) };
                    let rr = RawReq {
                        method: "POST".into(),
                        uri: format!("/v1/client/{route}/{a}"),
                        headers: vec![("X-Client-Id".into(), c.to_string().into_bytes()), ("Content-Type".into(), ct.as_bytes().to_vec())],
                        body: body.clone(),
                        chunks: chunklist,
                        abort_after: None,
                    };
                    match d.raw(&rr) {
                        Some(Ok((info, b))) => (decode(&op, &info, b), Some(info)),
                        Some(Err(m)) => (Out::Panic { msg: m }, None),
                        None => (Out::Error { msg: "no raw".into() }, None),
                    }
                } else if op == "AddVersion" {
                    d.add_version(c, a, body.clone())
                } else {
                    d.add_snapshot(c, a, body.clone())
                };
                if emu && matches!(out, Out::NoSuchClient) {
                    let r = (|| -> anyhow::Result<()> {
                        let mut txn = st_for_create.txn(c)?;
                        txn.new_client(Uuid::nil())?;
                        txn.commit()?;
                        Ok(())
                    })();
                    out = match r {
                        Ok(()) => d.add_version(c, a, body).0,
                        Err(e) => Out::Error { msg: format!("{e:#}") },
                    };
                }
                if let Out::Ok { vid, .. } = &out {
                    if let Some(n) = s["exp"]["vid"].as_i64() {
                        if s["exp"]["kind"].as_str() == Some("ok") {
                            self.namer.bind(n, *vid);
                        }
                    }
                    self.ledger.acc[ci].push((*vid, a));
                    self.ledger.toks[ci].push(tok);
                }
                resp = out_to_resp(&out, &mut self.namer, &self.pay);
                http = h;
            }
            "GetChildVersion" => {
                let c = self.clients[ci];
                let a = self.resolve(&s["arg"], ci);
                req["arg"] = json!(self.namer.name(a));
                let (out, h) = self.driver.as_mut().unwrap().get_child_version(c, a);
                if let Out::Found { data, .. } = &out {
                    btok = self.pay.tok_of(data);
                }
                resp = out_to_resp(&out, &mut self.namer, &self.pay);
                http = h;
            }
            "GetSnapshot" => {
                let c = self.clients[ci];
                let (out, h) = self.driver.as_mut().unwrap().get_snapshot(c);
                if let Out::Snap { data, .. } = &out {
                    btok = self.pay.tok_of(data);
                }
                resp = out_to_resp(&out, &mut self.namer, &self.pay);
                http = h;
            }
            "Walk" => {
                let c = self.clients[ci];
                let from = self.resolve(&s["from"], ci);
                req["arg"] = json!(self.namer.name(from));
                let cap = self.namer.universe().len() + 3;
                let mut seq: Vec<Value> = vec![];
                let mut cur = from;
                let mut term = "cap".to_string();
                for _ in 0..cap {
                    let (out, _) = self.driver.as_mut().unwrap().get_child_version(c, cur);
                    match out {
                        Out::Found { vid, parent, data } => {
                            seq.push(json!({"vid": self.namer.name(vid), "parent": self.namer.name(parent), "tok": self.pay.tok_of(&data)}));
                            cur = vid;
                        }
                        o => {
                            term = out_to_resp(&o, &mut self.namer, &self.pay).kind;
                            break;
                        }
                    }
                }
                walk = json!({"from": self.namer.name(from), "seq": seq, "term": term});
                resp = RespRec::kind("walk");
            }
            o => {
                tool_err = Some(format!("unknown op {o}"));
            }
        }
        let ntxn = self.counting.as_ref().map(|c| c.count()).unwrap_or(0).saturating_sub(txn0);
        let ds = self.dump();
        // the library twin executes the same step on its own storage
        let mut twin_json: Option<Value> = None;
        let unlisted = match (&self.allow_nums, cnum >= 1) {
            (Some(a), true) => !a.contains(&cnum),
            _ => false,
        };
        // payload tokens are numbered per runner: the twin draws the token the real run drew for this step, whatever steps
        // it was spared before (refused uploads, raw requests)
        let tok_now = self.pay.peek_tok();
        // (a client record written directly into the storage is no request: the twin gets it whether or not the client is listed)
        if self.twin.is_some() && !matches!(op.as_str(), "SetAllow" | "Raw") && (!unlisted || op == "NewClient") {
            let t = self.twin.as_mut().unwrap();
            while t.pay.peek_tok() < tok0 {
                t.pay.fresh_tok();
            }
            let (tev, _) = t.step(s, idx);
            twin_json = Some(json!({"resp": tev["resp"], "st": tev["st"]}));
        }
        if let Some(t) = self.twin.as_mut() {
            while t.pay.peek_tok() < tok_now {
                t.pay.fresh_tok();
            }
        }
        // divergence from the planned edge?  A different RESPONSE stops the tour (later planned
        // requests quote ids the plan expected to be issued); a different STATE is only recorded.
        let mut div = false;
        let mut sdiv = false;
        // a request the socket server never answered (the wait ran out): the server is stuck - whatever else was planned would
        // wait as long again, so the run ends here (the unanswered request is in the trace)
        if resp.kind == "error" && resp.msg.starts_with("socket") && (resp.msg.contains("read:") || resp.msg.contains("timed out")) && self.driver_kind == "sock" {
            div = true;
        }
        if let Some(exp) = s.get("exp") {
            if let Some(k) = exp["kind"].as_str() {
                if k != resp.kind {
                    div = true;
                }
            }
            if let Some(v) = exp["vid"].as_i64() {
                if matches!(resp.kind.as_str(), "ok" | "conflict" | "found" | "snap") && v != resp.vid {
                    div = true;
                }
            }
            if exp["same"].as_bool() == Some(true) && !self.last.is_empty() {
                for (a, b) in self.last.iter().zip(ds.iter()) {
                    let av: Vec<(i64, i64)> = a.v.iter().map(|r| (r.vid, r.parent)).collect();
                    let bv: Vec<(i64, i64)> = b.v.iter().map(|r| (r.vid, r.parent)).collect();
                    if a.e != b.e || a.l != b.l || av != bv || a.s != b.s {
                        sdiv = true;
                    }
                }
            }
            if let Some(post) = exp["post"].as_array() {
                for (i, p) in post.iter().enumerate() {
                    if i >= ds.len() {
                        break;
                    }
                    let d = &ds[i];
                    let mut pv: Vec<(i64, i64)> =
                        p["v"].as_array().map(|a| a.iter().map(|r| (r["vid"].as_i64().unwrap_or(-9), r["parent"].as_i64().unwrap_or(-9))).collect()).unwrap_or_default();
                    pv.sort();
                    let mut dv: Vec<(i64, i64)> = d.v.iter().map(|r| (r.vid, r.parent)).collect();
                    dv.sort();
                    if p["e"].as_bool() != Some(d.e)
                        || p["l"].as_i64() != Some(d.l)
                        || pv != dv
                        || p["s"]["has"].as_bool() != Some(d.s.has)
                        || (d.s.has
                            && (p["s"]["vid"].as_i64() != Some(d.s.vid)
                                || p["s"]["since"].as_i64() != Some(d.s.since)
                                || p["s"]["day"].as_i64() != Some(d.s.day)))
                    {
                        sdiv = true;
                    }
                }
            }
        }
        let nerr: usize = ds.iter().map(|d| d.err.len()).sum();
        let mut ev = json!({
            "ev": "Op", "run": self.run, "i": idx, "day": self.day,
            "req": req, "resp": resp.to_json(),
            "st": Self::st_json(&ds),
            "div": div || sdiv,
        });
        if op == "Walk" || s["op"] == "Walk" {
            if op != "Walk" {
                walk = json!({"from": 0, "seq": [], "term": "error"});
            }
            ev["walk"] = walk;
        }
        if let Some(h) = http.as_ref() {
            ev["http"] = h.to_json(&mut self.namer, btok);
        }
        if let Some(g) = hg {
            ev["hg"] = g;
        }
        if let Some(t) = twin_json {
            ev["twin"] = t;
        }
        if self.driver_kind != "lib" {
            ev["allow"] = match &self.allow_nums {
                Some(a) => json!({"on": true, "ids": a}),
                None => json!({"on": false, "ids": []}),
            };
            ev["ntxn"] = json!(ntxn);
        }
        if !resp.msg.is_empty() {
            ev["msg"] = json!(resp.msg);
        }
        if nerr > 0 {
            ev["dumperr"] = json!(ds.iter().flat_map(|d| d.err.clone()).collect::<Vec<_>>());
        }
        if let Some(t) = tool_err {
            ev["toolerr"] = json!(t);
        }
        self.last = ds;
        (ev, div)
    }

    pub fn reset_event(&mut self) -> Value {
        let ds = self.dump();
        let ev = json!({
            "ev": "Reset", "run": self.run, "i": -1, "day": 0,
            "req": {"op": "Reset", "c": 0, "arg": 0, "tok": 0, "lvl": self.driver.as_ref().map(|d| d.level()).unwrap_or("lib")},
            "resp": RespRec::kind("reset").to_json(),
            "st": Self::st_json(&ds),
            "div": false,
            "cfg": {"days": self.days, "versions": self.versions},
            "job": self.job["id"], "backend": self.backend, "driver": self.driver_kind,
        });
        self.last = ds;
        ev
    }
}

fn rr_tok(rr: &RawReq, pay: &Payloads) -> Option<i64> {
    if rr.body.is_empty() {
        None
    } else {
        let t = pay.tok_of(&rr.body);
        if t >= 0 {
            Some(t)
        } else {
            None
        }
    }
}

impl Runner {
    /// Turn a grammar record (spec/SyncHttp.tla) into concrete request bytes.
    /// Returns the request, the client number it acts for (0 = none) and the abstract path id.
    fn concretize(&mut self, g: &Value, s: &Value, ci: usize) -> (RawReq, i64, i64) {
        let cnum = s["c"].as_i64().unwrap_or(0);
        let cu = if cnum >= 1 { self.clients[ci] } else { self.stranger };
        let route = g["route"].as_str().unwrap_or("");
        let arg = if s.get("arg").is_some() { self.resolve(&s["arg"], ci) } else { Uuid::nil() };
        let argn = self.namer.name(arg);
        let seg = match g["pid"].as_str().unwrap_or("valid") {
            "valid" => format!("/{arg}"),
            "upper" => format!("/{}", arg.to_string().to_uppercase()),
            "braced" => format!("/%7B{arg}%7D"),
            "simple" => format!("/{}", arg.simple()),
            "urn" => format!("/urn:uuid:{arg}"),
            "short" => format!("/{}", &arg.to_string()[..35]),
            "long" => format!("/{arg}0"),
            "nonhex" => "/zzzzzzzz-zzzz-zzzz-zzzz-zzzzzzzzzzzz".to_string(),
            "empty" => "/".to_string(),
            "none" => "".to_string(),
            "extra" => format!("/{arg}/extra"),
            "pctbad" => "/%ff%fe%c3%28".to_string(),
            "verylong" => format!("/{}", "0123456789abcdef-".repeat(18)),
            _ => format!("/{arg}"),
        };
        let uri = match route {
            "av" => format!("/v1/client/add-version{seg}"),
            "gcv" => format!("/v1/client/get-child-version{seg}"),
            "as" => format!("/v1/client/add-snapshot{seg}"),
            "gs" => "/v1/client/snapshot".to_string(),
            "gs_slash" => "/v1/client/snapshot/".to_string(),
            "index" => "/".to_string(),
            "unknown" => "/v1/client/nope".to_string(),
            "unknown2" => "/v2/client/snapshot".to_string(),
            "prefix" => "/v1/client".to_string(),
            _ => "/".to_string(),
        };
        let mut headers: Vec<(String, Vec<u8>)> = vec![];
        let cs = cu.to_string();
        match g["cid"].as_str().unwrap_or("valid") {
            "valid" => headers.push(("X-Client-Id".into(), cs.clone().into_bytes())),
            "absent" => {}
            "empty" => headers.push(("X-Client-Id".into(), vec![])),
            "nonascii" => headers.push(("X-Client-Id".into(), vec![0xff, 0xfe, 0xc3, 0x28])),
            "utf8" => headers.push(("X-Client-Id".into(), "клиент".as_bytes().to_vec())),
            "short" => headers.push(("X-Client-Id".into(), cs[..35].as_bytes().to_vec())),
            "long" => headers.push(("X-Client-Id".into(), format!("{cs}0").into_bytes())),
            "garbage" => headers.push(("X-Client-Id".into(), b"not-a-uuid".to_vec())),
            "braced" => headers.push(("X-Client-Id".into(), format!("{{{cs}}}").into_bytes())),
            "urn" => headers.push(("X-Client-Id".into(), format!("urn:uuid:{cs}").into_bytes())),
            "simple" => headers.push(("X-Client-Id".into(), cu.simple().to_string().into_bytes())),
            "upper" => headers.push(("X-Client-Id".into(), cs.to_uppercase().into_bytes())),
            "spaces" => headers.push(("X-Client-Id".into(), format!(" {cs} ").into_bytes())),
            "longnonascii" => headers.push(("X-Client-Id".into(), vec![0xff; 40])),
            "longutf8" => headers.push(("X-Client-Id".into(), "x\u{e9}".repeat(40).into_bytes())),
            "longascii" => headers.push(("X-Client-Id".into(), "a1-".repeat(100).into_bytes())),
            "idjunk" => headers.push(("X-Client-Id".into(), format!("{cs}{}", "\u{20ac}".repeat(12)).into_bytes())),
            _ => headers.push(("X-Client-Id".into(), cs.clone().into_bytes())),
        }
        let right = match route {
            "av" => Some(HS_CT),
            "as" => Some(SNAP_CT),
            _ => None,
        };
        let other = match route {
            "av" => SNAP_CT,
            _ => HS_CT,
        };
        match g["ct"].as_str().unwrap_or("right") {
            "right" => {
                if let Some(r) = right {
                    headers.push(("Content-Type".into(), r.as_bytes().to_vec()));
                }
            }
            "absent" => {}
            "wrong" => headers.push(("Content-Type".into(), b"application/json".to_vec())),
            "octet" => headers.push(("Content-Type".into(), b"application/octet-stream".to_vec())),
            "swapped" => headers.push(("Content-Type".into(), other.as_bytes().to_vec())),
            "upper" => headers.push(("Content-Type".into(), right.unwrap_or(HS_CT).to_uppercase().into_bytes())),
            "params" => headers.push(("Content-Type".into(), format!("{}; charset=utf-8", right.unwrap_or(HS_CT)).into_bytes())),
            "prefix" => headers.push(("Content-Type".into(), format!("{}x", right.unwrap_or(HS_CT)).into_bytes())),
            _ => {}
        }
        // request headers the protocol gives no meaning to (SyncHttp: they never change the class of a request)
        if let Some(xh) = g["xh"].as_array() {
            for h in xh {
                if let (Some(k), Some(v)) = (h[0].as_str(), h[1].as_str()) {
                    headers.push((k.to_string(), v.as_bytes().to_vec()));
                }
            }
        }
        let size = g["size"].as_u64().unwrap_or(0) as usize;
        let mut body = vec![];
        if size > 0 {
            let n = self.pay.fresh_tok();
            body = big_payload(n, size);
            self.pay.intern(body.clone());
        }
        let nch = g["chunks"].as_u64().unwrap_or(1) as usize;
        let chunks = if nch <= 1 || size == 0 {
            vec![]
        } else {
            let base = size / nch;
            let mut v = vec![base.max(1); nch - 1];
            v[0] = (base / 3).max(1); // uneven first chunk
            v
        };
        // an aborted upload: the body is streamed in 3 pieces and breaks after the first one
        let abort = g["abort"].as_bool().unwrap_or(false) && size >= 3;
        let chunks = if abort { vec![(size / 3).max(1), (size / 3).max(1)] } else { chunks };
        (RawReq { method: g["method"].as_str().unwrap_or("GET").to_string(), uri, headers, body, chunks, abort_after: if abort { Some(1) } else { None } }, cnum, argn)
    }
}

pub fn big_payload(tok: i64, size: usize) -> Vec<u8> {
    let mut v = Vec::with_capacity(size);
    if size < 16 {
        // tiny bodies: vary the bytes with the counter
        for i in 0..size {
            v.push(((tok as u64 >> (8 * (i % 8))) & 0xff) as u8 ^ if i == 0 { 0 } else { 0xA5 });
        }
        return v;
    }
    let head = format!("big:{tok}:");
    v.extend_from_slice(head.as_bytes());
    let mut x = 0x2545F4914F6CDD1Du64 ^ (tok as u64).wrapping_mul(0x9E3779B97F4A7C15);
    while v.len() < size {
        x ^= x << 13;
        x ^= x >> 7;
        x ^= x << 17;
        v.extend_from_slice(&x.to_le_bytes());
    }
    v.truncate(size);
    v
}

/// Run one job; events are appended to `w`.  Returns a summary.
pub fn run_job(job: &Value, scratch: &std::path::Path, w: &mut dyn Write) -> anyhow::Result<Value> {
    let mut r = match Runner::new(job, scratch) {
        Ok(r) => r,
        Err(e) if job["start_may_fail"].as_bool() == Some(true) => {
            // a configuration the server may legitimately refuse to start with (e.g. an address it cannot bind)
            return Ok(json!({"id": job["id"], "run": job["run"], "steps": 0, "planned": 0, "div_at": -1, "start_failed": format!("{e:#}")}));
        }
        Err(e) if job["driver"] == "bin" && (format!("{e:#}").contains("server exited at start-up") || format!("{e:#}").contains("server did not accept connections")) => {
            // the real executable did not come up with this configuration: an observation about the code under test
            return Ok(json!({"id": job["id"], "run": job["run"], "steps": 0, "planned": 0, "div_at": -1, "start_refused": format!("{e:#}")}));
        }
        Err(e) => return Err(e),
    };
    let mut n = 0usize;
    let mut div_at: i64 = -1;
    let ev = r.reset_event();
    writeln!(w, "{}", ev)?;
    let steps = job["steps"].as_array().cloned().unwrap_or_default();
    for (i, s) in steps.iter().enumerate() {
        let (evs, stop) = r.step_multi(s, i);
        for (_, ev) in evs {
            writeln!(w, "{}", ev)?;
            n += 1;
            if ev.get("toolerr").is_some() {
                r.cleanup();
                anyhow::bail!("tool error at step {i}: {}", ev["toolerr"]);
            }
        }
        if stop {
            div_at = i as i64;
            break;
        }
    }
    r.set_day(0);
    r.cleanup();
    Ok(json!({"id": job["id"], "run": r.run, "steps": n, "planned": steps.len(), "div_at": div_at}))
}
