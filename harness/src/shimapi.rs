//! Access to the LD_PRELOADed shim (shim/iofault.c) through dlsym; absent shim => None.
use std::ffi::CString;

fn sym(name: &str) -> Option<*mut libc::c_void> {
    let c = CString::new(name).unwrap();
    let p = unsafe { libc::dlsym(libc::RTLD_DEFAULT, c.as_ptr()) };
    if p.is_null() {
        None
    } else {
        Some(p)
    }
}

pub fn present() -> bool {
    sym("tcss_shim_present").is_some()
}

/// Shift this thread's CLOCK_REALTIME by `secs`.  Returns false when the shim is not loaded.
pub fn clock_set_thread(secs: i64) -> bool {
    match sym("tcss_clock_set_thread") {
        Some(p) => {
            let f: extern "C" fn(libc::c_longlong) = unsafe { std::mem::transmute(p) };
            f(secs);
            true
        }
        None => false,
    }
}

pub fn clock_set_global(secs: i64) -> bool {
    match sym("tcss_clock_set_global") {
        Some(p) => {
            let f: extern "C" fn(libc::c_longlong) = unsafe { std::mem::transmute(p) };
            f(secs);
            true
        }
        None => false,
    }
}

pub fn io_reset() -> bool {
    match sym("tcss_io_reset") {
        Some(p) => {
            let f: extern "C" fn() = unsafe { std::mem::transmute(p) };
            f();
            true
        }
        None => false,
    }
}

pub fn io_count() -> i64 {
    match sym("tcss_io_count") {
        Some(p) => {
            let f: extern "C" fn() -> libc::c_long = unsafe { std::mem::transmute(p) };
            f() as i64
        }
        None => -1,
    }
}

pub fn io_enable(on: bool) {
    if let Some(p) = sym("tcss_io_enable") {
        let f: extern "C" fn(libc::c_int) = unsafe { std::mem::transmute(p) };
        f(if on { 1 } else { 0 });
    }
}

/// fail I/O call number `at` (counted from the last reset) with `errno`
pub fn io_fail(at: i64, errno: i32, persist: bool, after: bool) -> bool {
    match sym("tcss_io_fail") {
        Some(p) => {
            let f: extern "C" fn(libc::c_long, libc::c_int, libc::c_int, libc::c_int) = unsafe { std::mem::transmute(p) };
            f(at as libc::c_long, errno, persist as i32, after as i32);
            true
        }
        None => false,
    }
}

pub fn io_crash(at: i64) -> bool {
    match sym("tcss_io_crash") {
        Some(p) => {
            let f: extern "C" fn(libc::c_long) = unsafe { std::mem::transmute(p) };
            f(at as libc::c_long);
            true
        }
        None => false,
    }
}

pub fn io_log(path: &str) -> bool {
    match sym("tcss_io_log") {
        Some(p) => {
            let f: extern "C" fn(*const libc::c_char) = unsafe { std::mem::transmute(p) };
            let c = CString::new(path).unwrap();
            f(c.as_ptr());
            true
        }
        None => false,
    }
}

/// the next `n` attempts to take SQLite's WAL write lock fail (lock held by "somebody else"); 0 disarms
pub fn lock_busy(n: i64) -> bool {
    match sym("tcss_lock_busy") {
        Some(p) => {
            let f: extern "C" fn(libc::c_long) = unsafe { std::mem::transmute(p) };
            f(n as libc::c_long);
            true
        }
        None => false,
    }
}

/// how many lock attempts have been refused since the last `lock_busy`
pub fn lock_busy_seen() -> i64 {
    match sym("tcss_lock_busy_seen") {
        Some(p) => {
            let f: extern "C" fn() -> libc::c_long = unsafe { std::mem::transmute(p) };
            f() as i64
        }
        None => -1,
    }
}

/// I/O call number `at` (counted from the last reset) takes `ms` milliseconds longer, once (a slow disk)
pub fn io_delay(at: i64, ms: i64) -> bool {
    match sym("tcss_io_delay") {
        Some(p) => {
            let f: extern "C" fn(libc::c_long, libc::c_long) = unsafe { std::mem::transmute(p) };
            f(at as libc::c_long, ms as libc::c_long);
            true
        }
        None => false,
    }
}
