//! HTTP over a real socket: a minimal HTTP/1.1 client on std::net::TcpStream (Content-Length
//! and chunked uploads with arbitrary chunk boundaries, raw header bytes), an in-process
//! `HttpServer`, and the REAL executable as a child process (C17).
use crate::drivers::*;
use std::io::{Read, Write};
use std::net::TcpStream;
use std::time::Duration;
use uuid::Uuid;

pub fn http_call(addr: &str, r: &RawReq) -> Result<(HttpInfo, Vec<u8>), String> {
    let tmo = std::env::var("TCSS_SOCK_TIMEOUT").ok().and_then(|x| x.parse::<u64>().ok()).unwrap_or(60);
    // connect with a timeout: a listening socket nobody accepts on would otherwise block for minutes
    let mut s = {
        use std::net::ToSocketAddrs;
        let mut last = format!("connect {addr}: no address");
        let mut got = None;
        for sa in addr.to_socket_addrs().map_err(|e| format!("resolve {addr}: {e}"))? {
            match TcpStream::connect_timeout(&sa, Duration::from_secs(tmo.min(10))) {
                Ok(s) => {
                    got = Some(s);
                    break;
                }
                Err(e) => last = format!("connect {addr}: {e}"),
            }
        }
        got.ok_or(last)?
    };
    s.set_read_timeout(Some(Duration::from_secs(tmo))).ok();
    s.set_write_timeout(Some(Duration::from_secs(tmo))).ok();
    let mut head: Vec<u8> = vec![];
    head.extend_from_slice(format!("{} {} HTTP/1.1\r\nHost: {}\r\nConnection: close\r\n", r.method, r.uri, addr).as_bytes());
    for (k, v) in &r.headers {
        head.extend_from_slice(k.as_bytes());
        head.extend_from_slice(b": ");
        head.extend_from_slice(v);
        head.extend_from_slice(b"\r\n");
    }
    let has_body = !r.body.is_empty() || r.method == "POST" || r.method == "PUT";
    if !r.chunks.is_empty() {
        head.extend_from_slice(b"Transfer-Encoding: chunked\r\n\r\n");
        s.write_all(&head).map_err(|e| e.to_string())?;
        let mut off = 0usize;
        let mut sizes = r.chunks.clone();
        sizes.push(usize::MAX);
        let mut sent = 0usize;
        for n in sizes {
            if off >= r.body.len() {
                break;
            }
            if let Some(k) = r.abort_after {
                if sent >= k {
                    // a corrupt chunk header in the middle of the body, then the connection is closed
                    let _ = s.write_all(b"zz-not-hex\r\n");
                    let _ = s.flush();
                    break;
                }
            }
            sent += 1;
            let end = off.saturating_add(n).min(r.body.len());
            if end == off {
                continue;
            }
            let w = s.write_all(format!("{:x}\r\n", end - off).as_bytes()).and_then(|_| s.write_all(&r.body[off..end])).and_then(|_| s.write_all(b"\r\n"));
            if w.is_err() {
                break; // the server may answer (and close) before the upload is complete
            }
            off = end;
        }
        if r.abort_after.is_none() {
            let _ = s.write_all(b"0\r\n\r\n");
        }
    } else {
        if has_body {
            head.extend_from_slice(format!("Content-Length: {}\r\n", r.body.len()).as_bytes());
        }
        head.extend_from_slice(b"\r\n");
        s.write_all(&head).map_err(|e| e.to_string())?;
        // a refused oversized upload may be answered before everything is written
        let _ = s.write_all(&r.body);
    }
    let _ = s.flush();
    let mut buf: Vec<u8> = vec![];
    let mut tmp = [0u8; 65536];
    loop {
        match s.read(&mut tmp) {
            Ok(0) => break,
            Ok(n) => buf.extend_from_slice(&tmp[..n]),
            Err(e) => {
                if buf.is_empty() {
                    return Err(format!("read: {e}"));
                }
                break;
            }
        }
    }
    parse_response(&buf)
}

/// One upload in chunked transfer encoding whose pieces are sent one at a time by the caller.
pub struct Upload {
    s: TcpStream,
}

impl Upload {
    pub fn begin(addr: &str, uri: &str, headers: &[(String, Vec<u8>)]) -> Result<Upload, String> {
        let tmo = std::env::var("TCSS_SOCK_TIMEOUT").ok().and_then(|x| x.parse::<u64>().ok()).unwrap_or(60);
        let mut s = TcpStream::connect(addr).map_err(|e| format!("connect {addr}: {e}"))?;
        s.set_read_timeout(Some(Duration::from_secs(tmo))).ok();
        s.set_write_timeout(Some(Duration::from_secs(tmo))).ok();
        s.set_nodelay(true).ok();
        let mut head: Vec<u8> = format!("POST {uri} HTTP/1.1\r\nHost: {addr}\r\nConnection: close\r\n").into_bytes();
        for (k, v) in headers {
            head.extend_from_slice(k.as_bytes());
            head.extend_from_slice(b": ");
            head.extend_from_slice(v);
            head.extend_from_slice(b"\r\n");
        }
        head.extend_from_slice(b"Transfer-Encoding: chunked\r\n\r\n");
        s.write_all(&head).map_err(|e| e.to_string())?;
        s.flush().ok();
        Ok(Upload { s })
    }
    pub fn send(&mut self, piece: &[u8]) {
        if piece.is_empty() {
            return;
        }
        let _ = self.s.write_all(format!("{:x}\r\n", piece.len()).as_bytes());
        let _ = self.s.write_all(piece);
        let _ = self.s.write_all(b"\r\n");
        let _ = self.s.flush();
    }
    /// end of body; read the response
    pub fn finish(mut self) -> Result<(HttpInfo, Vec<u8>), String> {
        let _ = self.s.write_all(b"0\r\n\r\n");
        let _ = self.s.flush();
        let mut buf: Vec<u8> = vec![];
        let mut tmp = [0u8; 65536];
        loop {
            match self.s.read(&mut tmp) {
                Ok(0) => break,
                Ok(n) => buf.extend_from_slice(&tmp[..n]),
                Err(e) => {
                    if buf.is_empty() {
                        return Err(format!("read: {e}"));
                    }
                    break;
                }
            }
        }
        parse_response(&buf)
    }
}

fn parse_response(buf: &[u8]) -> Result<(HttpInfo, Vec<u8>), String> {
    let pos = buf.windows(4).position(|w| w == b"\r\n\r\n").ok_or_else(|| format!("no header end in {} bytes", buf.len()))?;
    let head = String::from_utf8_lossy(&buf[..pos]).to_string();
    let mut lines = head.split("\r\n");
    let status_line = lines.next().unwrap_or("");
    let status: u16 = status_line.split_whitespace().nth(1).and_then(|x| x.parse().ok()).ok_or_else(|| format!("bad status line {status_line:?}"))?;
    let mut headers = vec![];
    for l in lines {
        if let Some(i) = l.find(':') {
            headers.push((l[..i].trim().to_string(), l[i + 1..].trim().to_string()));
        }
    }
    let raw = &buf[pos + 4..];
    let chunked = headers.iter().any(|(k, v)| k.eq_ignore_ascii_case("transfer-encoding") && v.to_ascii_lowercase().contains("chunked"));
    let body = if chunked {
        let mut out = vec![];
        let mut i = 0usize;
        loop {
            let e = match raw[i..].windows(2).position(|w| w == b"\r\n") {
                Some(e) => e,
                None => break,
            };
            let n = usize::from_str_radix(String::from_utf8_lossy(&raw[i..i + e]).split(';').next().unwrap_or("0").trim(), 16).unwrap_or(0);
            i += e + 2;
            if n == 0 || i + n > raw.len() {
                break;
            }
            out.extend_from_slice(&raw[i..i + n]);
            i += n + 2;
        }
        out
    } else {
        match headers.iter().find(|(k, _)| k.eq_ignore_ascii_case("content-length")).and_then(|(_, v)| v.parse::<usize>().ok()) {
            Some(n) => raw[..n.min(raw.len())].to_vec(),
            None => raw.to_vec(),
        }
    };
    Ok((HttpInfo { status, headers, body_len: body.len() }, body))
}

/// Driver over one or several socket addresses (rotating), optionally owning an in-process server
/// or a child process running the real executable.
pub struct SockDriver {
    pub addrs: Vec<String>,
    next: usize,
    pub inproc: Option<(actix_web::dev::ServerHandle, std::thread::JoinHandle<()>)>,
    pub child: Option<std::process::Child>,
    pub unreachable: Vec<String>,
}

impl SockDriver {
    pub fn new(addrs: Vec<String>) -> Self {
        SockDriver { addrs, next: 0, inproc: None, child: None, unreachable: vec![] }
    }
    fn addr(&mut self) -> String {
        let a = self.addrs[self.next % self.addrs.len()].clone();
        self.next += 1;
        a
    }
    fn std_req(method: &str, uri: String, c: Uuid, ct: Option<&str>, body: Vec<u8>) -> RawReq {
        let mut headers = vec![("X-Client-Id".to_string(), c.to_string().into_bytes())];
        if let Some(ct) = ct {
            headers.push(("Content-Type".to_string(), ct.as_bytes().to_vec()));
        }
        RawReq { method: method.to_string(), uri, headers, body, chunks: vec![], abort_after: None }
    }
    fn go(&mut self, op: &str, r: RawReq) -> (Out, Option<HttpInfo>) {
        let a = self.addr();
        match http_call(&a, &r) {
            Ok((info, b)) => (decode(op, &info, b), Some(info)),
            Err(m) => {
                self.unreachable.push(a.clone());
                (Out::Error { msg: format!("socket {a}: {m}") }, None)
            }
        }
    }
    pub fn stop(&mut self) {
        if let Some((h, t)) = self.inproc.take() {
            // bounded: a worker that is stuck for good (it is the code under test) must not hang the harness
            let (tx, rx) = std::sync::mpsc::channel();
            std::thread::spawn(move || {
                let sys = actix_rt::System::new();
                sys.block_on(h.stop(false));
                let _ = t.join();
                let _ = tx.send(());
            });
            let _ = rx.recv_timeout(Duration::from_secs(10));
        }
        if let Some(mut c) = self.child.take() {
            let _ = c.kill(); // SIGKILL
            let _ = c.wait();
        }
    }
}

impl Drop for SockDriver {
    fn drop(&mut self) {
        self.stop();
    }
}

impl Driver for SockDriver {
    fn add_version(&mut self, c: Uuid, p: Uuid, body: Vec<u8>) -> (Out, Option<HttpInfo>) {
        self.go("AddVersion", Self::std_req("POST", format!("/v1/client/add-version/{p}"), c, Some(HS_CT), body))
    }
    fn get_child_version(&mut self, c: Uuid, p: Uuid) -> (Out, Option<HttpInfo>) {
        self.go("GetChildVersion", Self::std_req("GET", format!("/v1/client/get-child-version/{p}"), c, None, vec![]))
    }
    fn add_snapshot(&mut self, c: Uuid, v: Uuid, body: Vec<u8>) -> (Out, Option<HttpInfo>) {
        self.go("AddSnapshot", Self::std_req("POST", format!("/v1/client/add-snapshot/{v}"), c, Some(SNAP_CT), body))
    }
    fn get_snapshot(&mut self, c: Uuid) -> (Out, Option<HttpInfo>) {
        self.go("GetSnapshot", Self::std_req("GET", "/v1/client/snapshot".to_string(), c, None, vec![]))
    }
    fn level(&self) -> &'static str {
        "http"
    }
    fn raw(&mut self, r: &RawReq) -> Option<Result<(HttpInfo, Vec<u8>), String>> {
        let a = self.addr();
        Some(http_call(&a, r))
    }
}

/// Start the real handlers behind a real `HttpServer` on a loopback port of this process.
pub fn start_inproc(
    cfg: taskchampion_sync_server_core::ServerConfig,
    allow: Option<std::collections::HashSet<Uuid>>,
    storage: crate::base::Shared,
    workers: usize,
) -> anyhow::Result<SockDriver> {
    let ws = taskchampion_sync_server::WebServer::new(cfg, allow, storage);
    let (tx, rx) = std::sync::mpsc::channel();
    let t = std::thread::spawn(move || {
        let sys = actix_rt::System::new();
        let _ = sys.block_on(async move {
            let srv = actix_web::HttpServer::new(move || actix_web::App::new().configure(|c| ws.config(c)))
                .workers(workers.max(1))
                .disable_signals()
                .bind("127.0.0.1:0");
            match srv {
                Ok(srv) => {
                    let addr = srv.addrs()[0];
                    let running = srv.run();
                    let _ = tx.send(Ok((addr.to_string(), running.handle())));
                    let _ = running.await;
                }
                Err(e) => {
                    let _ = tx.send(Err(e.to_string()));
                }
            }
        });
    });
    match rx.recv_timeout(Duration::from_secs(20)) {
        Ok(Ok((addr, h))) => {
            let mut d = SockDriver::new(vec![addr]);
            d.inproc = Some((h, t));
            Ok(d)
        }
        Ok(Err(e)) => anyhow::bail!("bind failed: {e}"),
        Err(_) => anyhow::bail!("server did not start"),
    }
}

/// Start the real executable.  `spec`: {"path", "listen":[addr..], "args":[..], "env":{..}, "cwd"}
pub fn start_binary(spec: &serde_json::Value) -> anyhow::Result<SockDriver> {
    let path = spec["path"].as_str().ok_or_else(|| anyhow::anyhow!("bin.path missing"))?;
    let mut cmd = std::process::Command::new(path);
    for a in spec["args"].as_array().cloned().unwrap_or_default() {
        cmd.arg(a.as_str().unwrap_or(""));
    }
    // a clean environment: only what the configuration says (plus the shim)
    cmd.env_clear();
    for k in ["PATH", "LD_PRELOAD", "TCSS_CLOCK_FILE"] {
        if let Ok(v) = std::env::var(k) {
            cmd.env(k, v);
        }
    }
    if let Some(o) = spec["env"].as_object() {
        for (k, v) in o {
            cmd.env(k, v.as_str().unwrap_or(""));
        }
    }
    if let Some(c) = spec["cwd"].as_str() {
        cmd.current_dir(c);
    }
    cmd.stdout(std::process::Stdio::null()).stderr(std::process::Stdio::null());
    let child = cmd.spawn()?;
    let addrs: Vec<String> = spec["listen"].as_array().map(|a| a.iter().filter_map(|x| x.as_str().map(|s| s.to_string())).collect()).unwrap_or_default();
    let mut d = SockDriver::new(addrs.clone());
    d.child = Some(child);
    // wait until the first address accepts connections (the others are probed by the requests themselves)
    let deadline = std::time::Instant::now() + Duration::from_secs(15);
    loop {
        if TcpStream::connect(&addrs[0]).is_ok() {
            break;
        }
        if let Some(c) = d.child.as_mut() {
            if let Ok(Some(st)) = c.try_wait() {
                anyhow::bail!("server exited at start-up with {st}");
            }
        }
        if std::time::Instant::now() > deadline {
            anyhow::bail!("server did not accept connections on {}", addrs[0]);
        }
        std::thread::sleep(Duration::from_millis(20));
    }
    Ok(d)
}
