//! C12 grid: one real add_version per (targets, snapshot age, versions-since) case; the state is
//! set up through the public storage API (as the repository's unit tests do).
use crate::base::*;
use crate::drivers::*;
use crate::seq::{make_driver, open_backend, scratch_root};
use chrono::{Duration, Utc};
use serde_json::{json, Value};
use std::io::Write;
use taskchampion_sync_server_core::Snapshot;
use uuid::Uuid;

fn limbs(mut m: u128) -> Value {
    let mut v = vec![];
    while m > 0 {
        v.push(json!((m % 32768) as u64));
        m /= 32768;
    }
    Value::Array(v)
}

fn signed(n: i128) -> Value {
    json!({"neg": n < 0, "mag": limbs(n.unsigned_abs())})
}

pub fn run(plan_path: &str, out_path: &str) -> anyhow::Result<i32> {
    let plan: Value = serde_json::from_reader(std::io::BufReader::new(std::fs::File::open(plan_path)?))?;
    silence_panics();
    let scratch = scratch_root();
    std::fs::create_dir_all(&scratch)?;
    let mut w = std::io::BufWriter::new(std::fs::File::create(out_path)?);
    let mut n = 0;
    let mut skipped = 0;
    for (k, c) in plan["cases"].as_array().cloned().unwrap_or_default().iter().enumerate() {
        let td: i64 = c["td"].as_str().unwrap_or("0").parse()?;
        let tv: u32 = c["tv"].as_str().unwrap_or("0").parse()?;
        let age: i64 = c["age"].as_str().unwrap_or("0").parse()?;
        let since: u32 = c["since"].as_str().unwrap_or("0").parse()?;
        let has = c["has"].as_bool().unwrap_or(true);
        let backend = c["backend"].as_str().unwrap_or("inmemory");
        let driver = c["driver"].as_str().unwrap_or("lib");
        // representable snapshot time?
        // the fractional part of the age: 1 h by default; "frac_h" hours (< 24) otherwise, so that the snapshot was
        // stored earlier or later in the day than the request is made (whole elapsed days are what counts)
        let fh = c["frac_h"].as_i64().unwrap_or(1).clamp(1, 23);
        let margin = if age >= 0 { Duration::seconds(3600 * fh) } else { Duration::seconds(-3600 * fh) };
        let ts = match Duration::try_days(age).and_then(|d| d.checked_add(&margin)).and_then(|d| Utc::now().checked_sub_signed(d)) {
            Some(t) => t,
            None => {
                skipped += 1;
                continue;
            }
        };
        let dir = scratch.join(format!("urg{k}"));
        if backend == "sqlite" {
            std::fs::create_dir_all(&dir)?;
        }
        let st = open_backend(backend, &dir)?;
        let client = Uuid::new_v4();
        let v1 = Uuid::new_v4();
        {
            let mut txn = st.txn(client)?;
            txn.new_client(Uuid::nil())?;
            txn.add_version(v1, Uuid::nil(), b"v1".to_vec())?;
            if has {
                txn.set_snapshot(Snapshot { version_id: v1, timestamp: ts, versions_since: since }, b"snap".to_vec())?;
            }
            txn.commit()?;
        }
        let mut d = make_driver(driver, td, tv, None, Shared(st.clone()));
        let (out, _h) = d.add_version(client, v1, b"v2".to_vec());
        let (kind, urg, msg) = match &out {
            Out::Ok { urg, .. } => ("ok".to_string(), urg.clone(), String::new()),
            Out::Panic { msg } => ("panic".to_string(), String::new(), msg.clone()),
            Out::Error { msg } => ("error".to_string(), String::new(), msg.clone()),
            o => (format!("{o:?}").chars().take(20).collect(), String::new(), String::new()),
        };
        drop(d);
        // was the version committed although the request did not succeed?
        let committed = std::panic::catch_unwind(std::panic::AssertUnwindSafe(|| {
            st.txn(client).ok().and_then(|mut t| t.get_client().ok().flatten()).map(|c| c.latest_version_id != v1).unwrap_or(false)
        }))
        .unwrap_or(false);
        drop(st);
        if backend == "sqlite" {
            let _ = std::fs::remove_dir_all(&dir);
        }
        let ev = json!({
            "ev": "Urg", "run": k, "i": 0,
            "td": limbs(td.max(0) as u128), "tv": limbs(tv as u128), "age": signed(age as i128), "since": limbs(since as u128),
            "has": has, "kind": kind, "urg": urg, "committed": committed, "msg": msg,
            "backend": backend, "driver": driver,
            "dec": {"td": td.to_string(), "tv": tv.to_string(), "age": age.to_string(), "since": since.to_string()},
        });
        writeln!(w, "{}", ev)?;
        n += 1;
    }
    w.flush()?;
    let _ = std::fs::remove_dir_all(&scratch);
    println!("{}", json!({"cases": n, "skipped_unrepresentable": skipped}));
    Ok(0)
}
