"""Shared plumbing of the checker: build, TLC runner, harness runner, judge, evidence, findings."""
import json, os, re, shutil, subprocess, sys, time, hashlib, glob

ROOT = os.path.dirname(os.path.dirname(os.path.abspath(__file__)))
BUILD = os.path.join(ROOT, "build")
SPEC = os.path.join(ROOT, "spec")
HARNESS_DIR = os.path.join(ROOT, "harness")
REPO = "/repo"
SHIM = os.path.join(BUILD, "iofault.so")
TLA_CP = "/opt/veriftools/tla/tla2tools.jar:/opt/veriftools/tla/CommunityModules-deps.jar"
NCPU = os.cpu_count() or 8


class ToolError(Exception):
    pass


def log(*a):
    print(*a, file=sys.stderr, flush=True)


def seed():
    try:
        return int(os.environ.get("VERIF_SEED", "1"))
    except ValueError:
        return 1


def sh(cmd, timeout=None, env=None, cwd=None, check=False):
    e = dict(os.environ)
    if env:
        e.update(env)
    p = subprocess.run(cmd, shell=isinstance(cmd, str), stdout=subprocess.PIPE, stderr=subprocess.PIPE,
                       timeout=timeout, env=e, cwd=cwd, text=True, errors="replace")
    if check and p.returncode != 0:
        raise ToolError(f"command failed ({p.returncode}): {cmd}\n{p.stdout[-2000:]}\n{p.stderr[-4000:]}")
    return p


# ---------------------------------------------------------------- build

def build_shim():
    os.makedirs(BUILD, exist_ok=True)
    src = os.path.join(ROOT, "shim", "iofault.c")
    if (not os.path.exists(SHIM)) or os.path.getmtime(SHIM) < os.path.getmtime(src):
        sh(["cc", "-O2", "-shared", "-fPIC", "-o", SHIM, src, "-ldl", "-lpthread"], check=True)


def build_harness(release=False):
    """(Re)build the harness against /repo's current working tree.  Returns the binary path."""
    build_shim()
    lock = os.path.join(HARNESS_DIR, "Cargo.lock")
    repolock = os.path.join(REPO, "Cargo.lock")
    if (not os.path.exists(lock)) or os.path.getmtime(lock) < os.path.getmtime(repolock):
        shutil.copyfile(repolock, lock)
    cmd = ["cargo", "build", "--offline"] + (["--release"] if release else [])
    env = {"CARGO_NET_OFFLINE": "true"}
    t = time.time()
    p = sh(cmd, cwd=HARNESS_DIR, env=env, timeout=1800)
    if p.returncode != 0:
        # one retry with a fresh lock file (a changed /repo/Cargo.lock)
        shutil.copyfile(repolock, lock)
        p = sh(cmd, cwd=HARNESS_DIR, env=env, timeout=1800)
        if p.returncode != 0:
            raise ToolError("harness build failed:\n" + p.stderr[-6000:])
    log(f"[build] harness {'release' if release else 'dev'} ok in {time.time()-t:.1f}s")
    return os.path.join(BUILD, "target", "release" if release else "debug", "tcss-harness")


def build_server_bin():
    """Build the real executable from /repo's working tree into /verif/build (not /repo/target)."""
    tgt = os.path.join(BUILD, "repo-target")
    p = sh(["cargo", "build", "--offline", "--manifest-path", os.path.join(REPO, "Cargo.toml"),
            "--bin", "taskchampion-sync-server", "--target-dir", tgt],
           env={"CARGO_NET_OFFLINE": "true"}, timeout=1800)
    if p.returncode != 0:
        raise ToolError("server binary build failed:\n" + p.stderr[-6000:])
    return os.path.join(tgt, "debug", "taskchampion-sync-server")


# ---------------------------------------------------------------- TLC

import itertools
_META_SEQ = itertools.count()          # unique per call: several judge threads start in the same millisecond


def tlc(module, cfg_path, workers=8, timeout=600, metadir=None, env=None, extra=None, heap="8g", java_opts="", gc="-XX:+UseParallelGC"):
    """Run TLC; returns combined output.  Raises ToolError on timeout."""
    metadir = metadir or os.path.join(BUILD, "tlc", "m%d_%d_%d" % (os.getpid(), int(time.time() * 1000) % 10**9, next(_META_SEQ)))
    os.makedirs(metadir, exist_ok=True)
    cmd = ["java", gc, f"-Xmx{heap}"] + java_opts.split() + ["-cp", TLA_CP, "tlc2.TLC",
           "-workers", str(workers), "-metadir", metadir, "-cleanup", "-noGenerateSpecTE",
           "-config", cfg_path] + (extra or []) + [os.path.join(SPEC, module)]
    e = dict(os.environ)
    if env:
        e.update(env)
    try:
        p = subprocess.run(cmd, stdout=subprocess.PIPE, stderr=subprocess.STDOUT, timeout=timeout, env=e,
                           cwd=SPEC, text=True, errors="replace")
    except subprocess.TimeoutExpired:
        raise ToolError(f"TLC timeout after {timeout}s on {module}")
    finally:
        shutil.rmtree(metadir, ignore_errors=True)
    return p.stdout


def tlc_stats(out):
    m = re.search(r"(\d+) states generated, (\d+) distinct states found", out)
    if not m:
        return None
    return {"generated": int(m.group(1)), "distinct": int(m.group(2))}


def tlc_ok(out):
    return "Model checking completed. No error has been found." in out


def tlc_error_summary(out):
    lines = [l for l in out.splitlines() if l.startswith("Error:") or "is violated" in l or "Invariant" in l and "violated" in l]
    return lines[:10]


def write_cfg(name, text):
    d = os.path.join(BUILD, "cfg")
    os.makedirs(d, exist_ok=True)
    p = os.path.join(d, name)
    with open(p, "w") as f:
        f.write(text)
    return p


def parse_tla_string_tuple(line, tag):
    """Parse a PrintT line  <<"TAG", "json...">>  -> python object (json decoded)."""
    pre = '<<"%s", ' % tag
    if not line.startswith(pre):
        return None
    body = line[len(pre):].rstrip()
    if body.endswith(">>"):
        body = body[:-2]
    try:
        s = json.loads(body)       # TLA+ string escapes (\" \\) are JSON compatible
        return json.loads(s)
    except Exception:
        return None


# ---------------------------------------------------------------- harness

def run_harness(binary, args, timeout=1800, env=None, preload=True):
    e = {}
    if preload:
        e["LD_PRELOAD"] = SHIM
    if env:
        e.update(env)
    p = sh([binary] + args, timeout=timeout, env=e)
    if p.returncode not in (0,):
        raise ToolError(f"harness failed ({p.returncode}): {' '.join(args)}\n{p.stdout[-2000:]}\n{p.stderr[-4000:]}")
    try:
        return json.loads(p.stdout.strip().splitlines()[-1])
    except Exception:
        raise ToolError("harness produced no summary: " + p.stdout[-2000:] + p.stderr[-2000:])


def run_harness_sharded(binary, cmd, plan, wd, nproc=None, timeout=3000, env=None):
    """Run the jobs of a plan in `nproc` harness PROCESSES (1 thread each): SQLite connections in
    many threads of one process contend on the process-wide mmap lock."""
    from concurrent.futures import ThreadPoolExecutor
    nproc = nproc or NCPU
    jobs = plan["jobs"]
    shards = [[] for _ in range(nproc)]
    load = [0] * nproc
    for j in sorted(jobs, key=lambda j: -len(j.get("steps", []))):
        k = load.index(min(load))
        shards[k].append(j)
        load[k] += len(j.get("steps", [])) * (3 if j.get("backend") == "sqlite" else 1) + 5
    todo = []
    for k, sh_jobs in enumerate(shards):
        if not sh_jobs:
            continue
        pf = os.path.join(wd, f"plan{k}.json")
        with open(pf, "w") as f:
            json.dump(dict(plan, jobs=sh_jobs, threads=1), f)
        todo.append((pf, os.path.join(wd, f"tr{k}")))
    summaries, errors = [], []
    with ThreadPoolExecutor(max_workers=nproc) as ex:
        for r in ex.map(lambda a: run_harness(binary, [cmd, a[0], a[1]], timeout=timeout, env=env), todo):
            summaries += r.get("summaries", [])
            errors += r.get("errors", [])
    for pf, _ in todo:
        os.remove(pf)
    files = sorted(glob.glob(os.path.join(wd, "tr*.ndjson")))
    return {"summaries": summaries, "errors": errors}, files


# ---------------------------------------------------------------- judge (TLC on recorded traces)

# one line per (event, predicate name): short tuples are never wrapped by TLC's pretty printer
VIOL_RE = re.compile(r'^<<"VIOL", (\d+), (-?\d+), (-?\d+), "(\w+)">>')
JUDGED_RE = re.compile(r'^<<"JUDGED", (\d+), (\d+), (\d+)>>')


def _judge_one(args):
    spec, cfg, path, heap = args
    n = sum(1 for _ in open(path))
    if n == 0:
        return path, [], 0, ""
    out = tlc(spec, cfg, workers=1, timeout=3600, env={"TRACE": path}, heap=heap,
              java_opts="-Xss1g -XX:CICompilerCount=2", gc="-XX:+UseSerialGC")
    viols = []
    byline = {}
    judged = None
    for line in out.splitlines():
        if '"VIOL"' in line and not VIOL_RE.match(line):
            raise ToolError("unparsable VIOL line from the judge: " + line[:300])
        m = VIOL_RE.match(line)
        if m:
            k = int(m.group(1))
            if k not in byline:
                byline[k] = {"file": path, "line": k, "run": int(m.group(2)), "i": int(m.group(3)), "names": []}
                viols.append(byline[k])
            byline[k]["names"].append(m.group(4))
        m = JUDGED_RE.match(line)
        if m:
            judged = (int(m.group(1)), int(m.group(2)))
    if judged is None or judged[0] != judged[1] or judged[1] != n:
        raise ToolError(f"judge did not consume {path}: judged={judged} lines={n}\n" + out[-3000:])
    return path, viols, n, out


def judge(trace_files, spec="TraceSeq.tla", cfg=None, jobs=None, heap="3g"):
    """Judge every trace file with TLC (one single-worker JVM per file, several in parallel)."""
    from concurrent.futures import ThreadPoolExecutor
    cfg = cfg or os.path.join(SPEC, spec.replace(".tla", ".cfg"))
    jobs = jobs or max(1, NCPU - 2)
    files = [f for f in trace_files if os.path.exists(f) and os.path.getsize(f) > 0]
    viols, total = [], 0
    with ThreadPoolExecutor(max_workers=jobs) as ex:
        for path, v, n, _ in ex.map(_judge_one, [(spec, cfg, f, heap) for f in files]):
            viols.extend(v)
            total += n
    return viols, total


def split_trace(files, outdir, max_events=15000):
    """Re-split trace files at Reset boundaries into chunks of about max_events lines."""
    os.makedirs(outdir, exist_ok=True)
    total = 0
    for f in files:
        if os.path.exists(f):
            with open(f) as fh:
                total += sum(1 for _ in fh)
    max_events = max(2000, min(max_events, total // max(1, NCPU - 2) + 1))
    chunks, cur, cur_n, k = [], None, 0, 0

    def new():
        nonlocal cur, cur_n, k
        if cur:
            cur.close()
        p = os.path.join(outdir, f"chunk{k}.ndjson")
        k += 1
        cur = open(p, "w")
        cur_n = 0
        chunks.append(p)

    new()
    for f in files:
        if not os.path.exists(f):
            continue
        with open(f) as fh:
            for line in fh:
                if line.startswith('{"backend"') or '"ev":"Reset"' in line[:400]:
                    if cur_n >= max_events:
                        new()
                cur.write(line)
                cur_n += 1
    cur.close()
    return [c for c in chunks if os.path.getsize(c) > 0]


def load_event(path, line_no):
    with open(path) as f:
        for i, line in enumerate(f, 1):
            if i == line_no:
                return json.loads(line)
    return None


def load_run(path, run):
    evs = []
    with open(path) as f:
        for line in f:
            if f'"run":{run},' in line or f'"run":{run}}}' in line:
                e = json.loads(line)
                if e.get("run") == run:
                    evs.append(e)
    return evs


# ---------------------------------------------------------------- findings / evidence

def known_findings():
    p = os.path.join(ROOT, "known-findings.jsonl")
    open_, fixed = [], []
    if os.path.exists(p):
        for line in open(p):
            line = line.strip()
            if not line or line.startswith("#"):
                continue
            if line.startswith("fixed:"):
                fixed.append({"status": "fixed", "text": line})
                continue
            try:
                d = json.loads(line)
            except Exception:
                continue
            (fixed if d.get("status") == "fixed" else open_).append(d)
    return open_, fixed


def write_evidence(pid, tier, level, coverage, assumptions, wall, violations):
    evdir = os.environ.get("VERIF_EVIDENCE_DIR") or os.path.join(ROOT, "evidence")   # seeded-change runs write elsewhere
    os.makedirs(evdir, exist_ok=True)
    ev = {"property_id": pid, "tier": tier, "seed": seed(), "level": level, "coverage": coverage,
          "assumptions": assumptions, "wall_s": round(wall, 2), "violations": violations}
    with open(os.path.join(evdir, pid + ".json"), "w") as f:
        json.dump(ev, f, indent=1, sort_keys=True)
    return ev


def write_replay(pid, obj):
    d = os.path.join(ROOT, "replays")
    os.makedirs(d, exist_ok=True)
    h = hashlib.sha1(json.dumps(obj, sort_keys=True).encode()).hexdigest()[:10]
    p = os.path.join(d, f"{pid}-{h}.json")
    with open(p, "w") as f:
        json.dump(obj, f, indent=1)
    return p


def workdir(name):
    d = os.path.join(BUILD, "work", f"{name}-{os.getpid()}")
    shutil.rmtree(d, ignore_errors=True)
    os.makedirs(d, exist_ok=True)
    return d
