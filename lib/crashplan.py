"""C04: crash points, process-crash images (real kills) and power-loss images (rebuilt from the shim's I/O log)."""
import json, os, random, shutil, subprocess
from common import *

DBNAME = "taskchampion-sync-server.sqlite3"
SUFFIX = {"db": "", "wal": "-wal", "journal": "-journal"}
O_CREAT = 0o100

HISTORIES = {
    "h1": dict(nclients=2, driver="http", steps=[
        {"op": "AddVersion", "c": 1, "arg": {"sym": "nil"}, "size": 100},
        {"op": "AddVersion", "c": 1, "arg": {"sym": "latest"}, "size": 1},
        {"op": "AddSnapshot", "c": 1, "arg": {"sym": "latest"}, "size": 4100},
        {"op": "AddVersion", "c": 1, "arg": {"sym": "latest"}, "size": 4000},
        {"op": "Hold"},
        {"op": "AddVersion", "c": 1, "arg": {"sym": "latest"}, "size": 65536},
        {"op": "AddVersion", "c": 2, "arg": {"sym": "rnd", "k": 1}, "size": 20},
        {"op": "AddSnapshot", "c": 1, "arg": {"sym": "latest"}, "size": 100},
        {"op": "Unhold"},
        {"op": "GetChildVersion", "c": 1, "arg": {"sym": "anc", "k": 1}},
        {"op": "AddVersion", "c": 1, "arg": {"sym": "latest"}, "size": 4200},
        {"op": "Reopen"},
        {"op": "AddVersion", "c": 2, "arg": {"sym": "latest"}, "size": 300},
    ]),
    "h2": dict(nclients=2, driver="http", steps=[
        {"op": "AddVersion", "c": 1, "arg": {"sym": "nil"}, "size": 4096},
        {"op": "Hold"},
        {"op": "AddVersion", "c": 1, "arg": {"sym": "latest"}, "size": 1048576},
        {"op": "AddSnapshot", "c": 1, "arg": {"sym": "latest"}, "size": 1048577},
        {"op": "AddVersion", "c": 1, "arg": {"sym": "latest"}, "size": 4150},
        {"op": "Unhold"},
        {"op": "AddVersion", "c": 1, "arg": {"sym": "latest"}, "size": 8192},
        {"op": "AddSnapshot", "c": 1, "arg": {"sym": "anc", "k": 1}, "size": 65535},
        {"op": "GetSnapshot", "c": 1},
    ]),
    "h3": dict(nclients=3, driver="http", steps=[
        {"op": "AddVersion", "c": 1, "arg": {"sym": "rnd", "k": 2}, "size": 2},
        {"op": "AddVersion", "c": 2, "arg": {"sym": "nil"}, "size": 4090},
        {"op": "AddVersion", "c": 1, "arg": {"sym": "latest"}, "size": 4110},
        {"op": "AddSnapshot", "c": 2, "arg": {"sym": "latest"}, "size": 12000},
        {"op": "AddVersion", "c": 3, "arg": {"sym": "nil"}, "size": 255},
        {"op": "Reopen"},
        {"op": "AddVersion", "c": 2, "arg": {"sym": "latest"}, "size": 256},
        {"op": "AddVersion", "c": 2, "arg": {"sym": "first"}, "size": 30},
        {"op": "AddSnapshot", "c": 1, "arg": {"sym": "first"}, "size": 65537},
        {"op": "AddVersion", "c": 1, "arg": {"sym": "latest"}, "size": 70000},
    ]),
}

CONTINUATION = [
    {"op": "Walk", "c": 1, "from": {"sym": "base"}}, {"op": "Walk", "c": 2, "from": {"sym": "base"}},
    {"op": "GetSnapshot", "c": 1}, {"op": "Walk", "c": 1, "from": {"sym": "snap"}},
    {"op": "AddVersion", "c": 1, "arg": {"sym": "latest"}}, {"op": "GetChildVersion", "c": 1, "arg": {"sym": "anc", "k": 1}},
    {"op": "AddSnapshot", "c": 1, "arg": {"sym": "latest"}}, {"op": "GetSnapshot", "c": 1},
    {"op": "AddVersion", "c": 2, "arg": {"sym": "latest"}}, {"op": "Walk", "c": 2, "from": {"sym": "base"}},
]


def job_of(name, run, d):
    h = HISTORIES[name]
    return {"id": name, "run": run, "backend": "sqlite", "driver": h["driver"], "dir": d, "cfg": {"days": 14, "versions": 100},
            "nclients": h["nclients"], "first_free": 1, "steps": h["steps"]}


def crashrun(binary, name, run, d, out, crash_at=None, iolog=None):
    os.makedirs(d, exist_ok=True)
    pf = out + ".plan.json"
    json.dump(job_of(name, run, d), open(pf, "w"))
    env = {"LD_PRELOAD": SHIM, "TCSS_IO_DIR": d}      # every file below the data directory is observed
    if crash_at is not None:
        env["TCSS_CRASH_AT"] = str(crash_at)
    if iolog:
        env["TCSS_IO_LOG"] = iolog
    p = sh([binary, "crashrun", pf, out], env=env, timeout=300)
    os.remove(pf)
    return p


def read_events(path):
    evs = []
    with open(path) as f:
        for line in f:
            line = line.strip()
            if not line:
                continue
            try:
                evs.append(json.loads(line))
            except Exception:
                break          # a torn last line of a killed process
    return evs


def parse_iolog(path):
    ops = []
    with open(path) as f:
        for line in f:
            p = line.rstrip("\n").split(" ", 6)
            if len(p) < 7:
                continue
            seq, op, cls, off, ln, dec, data = p
            ops.append(dict(seq=int(seq), op=op, cls=cls, off=int(off), len=int(ln), data=(bytes.fromhex(data) if data != "-" else b"")))
    return ops


def fname(cls):
    """file name (relative to the data directory) of a class of the I/O log"""
    return DBNAME + SUFFIX[cls] if cls in SUFFIX else cls


class DiskModel:
    """durable content per file (any file below the data directory) + operations not yet covered by an fsync"""

    def __init__(self):
        self.durable = {}      # name -> bytearray (exists) ; absent = does not exist
        self.pending = []      # (name, kind, off, data)
        self.dirs = set()

    def step(self, o):
        op = o["op"]
        if op == "rename":
            a, b = o["cls"].split(">", 1)
            a, b = fname(a), fname(b)
            # assumption: directory operations are durable in issue order; the data follows the name
            if a in self.durable:
                self.durable[b] = self.durable.pop(a)
            self.pending = [((b if p[0] == a else p[0]),) + p[1:] for p in self.pending]
            return
        if op == "mkdir":
            self.dirs.add(fname(o["cls"]))
            return
        cls = fname(o["cls"])
        if op == "open":
            if (o["off"] & O_CREAT) and cls not in self.durable:
                self.durable[cls] = bytearray()
        elif op == "pwrite":
            if cls not in self.durable:
                self.durable[cls] = bytearray()
            self.pending.append((cls, "w", o["off"], o["data"]))
        elif op == "ftruncate":
            self.pending.append((cls, "t", o["off"], b""))
        elif op == "fsync":
            keep = []
            for p in self.pending:
                if p[0] == cls:
                    self.apply(self.durable, p)
                else:
                    keep.append(p)
            self.pending = keep
        elif op == "unlink":
            self.durable.pop(cls, None)
            self.pending = [p for p in self.pending if p[0] != cls]

    @staticmethod
    def apply(files, p):
        cls, kind, off, data = p
        if cls not in files:
            return
        b = files[cls]
        if kind == "w":
            if len(b) < off:
                b.extend(b"\0" * (off - len(b)))
            b[off:off + len(data)] = data
        else:
            if len(b) > off:
                del b[off:]
            else:
                b.extend(b"\0" * (off - len(b)))

    def size(self):
        return sum(len(v) for v in self.durable.values()) + sum(len(p[3]) for p in self.pending)

    def image(self, subset, torn=None):
        files = {k: bytearray(v) for k, v in self.durable.items()}
        for i, p in enumerate(self.pending):
            if i in subset:
                if torn is not None and i == torn and p[1] == "w" and len(p[3]) > 512:
                    self.apply(files, (p[0], "w", p[2], p[3][:512 * max(1, (len(p[3]) // 512) // 2)]))
                else:
                    self.apply(files, p)
        return files


def variants(n, rng, tier):
    """subsets of the n unsynced operations that reach the disk"""
    out = [("none", frozenset()), ("all", frozenset(range(n)))]
    if n == 0:
        return out[:1]
    if n <= (8 if tier == "thorough" else 3):
        for m in range(1, 2 ** n - 1):
            out.append((f"set{m}", frozenset(i for i in range(n) if m >> i & 1)))
        return out
    pre = range(1, n) if tier == "thorough" else sorted(set([1, n // 2, n - 1]))
    for j in pre:
        out.append((f"prefix{j}", frozenset(range(j))))
    om = range(n) if tier == "thorough" else sorted(set([0, n - 1]))
    for j in om:
        out.append((f"omit{j}", frozenset(range(n)) - {j}))
    sv = range(n) if tier == "thorough" else [rng.randrange(n)]
    for j in sv:
        out.append((f"only{j}", frozenset([j])))
    for t in range(6 if tier == "thorough" else 2):
        out.append((f"rand{t}", frozenset(i for i in range(n) if rng.random() < 0.5)))
    seen, res = set(), []
    for name, s in out:
        if s not in seen:
            seen.add(s)
            res.append((name, s))
    return res


def write_image(files, d, dirs=()):
    os.makedirs(d, exist_ok=True)
    for sub in dirs:
        os.makedirs(os.path.join(d, sub), exist_ok=True)
    for name, b in files.items():
        if name.endswith("-shm"):
            continue
        p = os.path.join(d, name)
        os.makedirs(os.path.dirname(p), exist_ok=True)
        with open(p, "wb") as f:
            f.write(b)


def prefix_for(events, k):
    """events of the dry run that are known at a crash before I/O call k"""
    out = [events[0]]
    i = 1
    while i < len(events):
        e = events[i]
        if e["ev"] == "Intent":
            ack = events[i + 1] if i + 1 < len(events) and events[i + 1]["ev"] == "Ack" else None
            if ack is not None and ack["io1"] < k:
                out += [e, ack]
                i += 2
                continue
            if e["io0"] < k:
                out.append(e)
            break
        i += 1
    return out


# ---------------------------------------------------------------- WAL protocol events (spec/TraceWal.tla)

PAGE = 4096


def wal_events(ops, events, max_pages=40):
    """Abstract the shim's I/O log of a history into the actions of spec/WalDurability.tla.
    ops: parse_iolog(); events: the history trace (Ack events carry io1 = number of I/O calls made when
    the request was acknowledged).  Page numbers are renamed to 1..max_pages by first appearance
    (the model is indifferent to which page is which); returns (events, stats)."""
    acks = sorted(e["io1"] for e in events if e.get("ev") == "Ack")
    out = []
    rename = {}

    def pg(n):
        if n not in rename:
            rename[n] = len(rename) % max_pages + 1
        return rename[n]

    pending_frames = []      # frames of the transaction being written: (page, commit)
    wal_seen = False
    ckpt_on = False
    pend_hdr = None
    ai = 0
    stats = dict(frames=0, commits=0, wal_syncs=0, db_syncs=0, ckpt_writes=0, wal_resets=0, acks=0, skipped_setup=0)

    def flush_txn():
        nonlocal pending_frames
        if not pending_frames:
            return
        # a page written twice inside one transaction counts once (its last image)
        last = {}
        for i, (p, c) in enumerate(pending_frames):
            last[p] = i
        pages = [p for p, _ in pending_frames if True]
        uniq = [p for i, (p, c) in enumerate(pending_frames) if last[p] == i]
        out.append({"a": "Begin", "pages": uniq})
        for p in uniq:
            out.append({"a": "WalWrite", "page": p})
        pending_frames = []

    for o in ops:
        while ai < len(acks) and acks[ai] < o["seq"]:
            out.append({"a": "Ack"})
            stats["acks"] += 1
            ai += 1
        cls, op = o["cls"], o["op"]
        cls = {DBNAME: "db", DBNAME + "-wal": "wal", DBNAME + "-journal": "journal"}.get(cls, cls)
        if cls == "wal":
            if op == "pwrite":
                data, off = o["data"], o["off"]
                if off == 0 and len(data) >= 32 and not (len(data) > 32 + 24):
                    # WAL header: a new WAL generation (restart after a checkpoint)
                    if wal_seen and any(e["a"] == "WalWrite" for e in out) and not ckpt_on:
                        pass
                    wal_seen = True
                    continue
                wal_seen = True
                # frames: 24-byte header [pgno u32 BE][db size after commit u32 BE]... then the page
                if len(data) == 24:
                    pend_hdr = data
                    continue
                if len(data) == PAGE and pend_hdr is not None:
                    hdr = pend_hdr
                    pend_hdr = None
                elif len(data) >= 24 + PAGE:
                    hdr = data[:24]
                else:
                    continue
                pgno = int.from_bytes(hdr[0:4], "big")
                commit = int.from_bytes(hdr[4:8], "big") != 0
                pending_frames.append((pg(pgno), commit))
                stats["frames"] += 1
                if commit:
                    stats["commits"] += 1
                    flush_txn()
            elif op == "fsync":
                out.append({"a": "WalSync"})
                stats["wal_syncs"] += 1
            elif op == "unlink" or (op == "ftruncate" and o["off"] == 0):
                if ckpt_on or wal_seen:
                    out.append({"a": "WalReset"})
                    stats["wal_resets"] += 1
                ckpt_on = False
                wal_seen = False
        elif cls == "db":
            if op == "pwrite":
                if not any(e["a"] == "WalWrite" for e in out):
                    stats["skipped_setup"] += 1       # database creation before the first WAL transaction
                    continue
                if not ckpt_on:
                    out.append({"a": "CkptBegin"})
                    ckpt_on = True
                n = max(1, len(o["data"]) // PAGE)
                for i in range(n):
                    out.append({"a": "CkptWrite", "page": pg(o["off"] // PAGE + 1 + i)})
                    stats["ckpt_writes"] += 1
            elif op == "fsync":
                out.append({"a": "DbSync"})
                stats["db_syncs"] += 1
    while ai < len(acks):
        out.append({"a": "Ack"})
        stats["acks"] += 1
        ai += 1
    stats["pages"] = len(rename)
    return out, stats
