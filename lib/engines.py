"""Engines: one function per family of properties; all verdicts come from TLC."""
import json, os, random, shutil, sys, time, collections, glob
from common import *
import seqplan

SEQ_PROPS = {"C01", "C02", "C06", "C07", "C08", "C09", "C10", "C11", "C12", "C18"}
NOTE_NAMES = {"M_conf", "M_ghost", "M_reset"}


def tier_of(argv):
    t = os.environ.get("VERIF_TIER", "")
    for a in argv:
        if a in ("quick", "thorough"):
            t = a
    return t if t in ("quick", "thorough") else "quick"


# ---------------------------------------------------------------- reporting

def finding_matches(kf, sig):
    m = kf.get("match", {})
    return all(sig.get(k) == v for k, v in m.items())


def report(pid, tier, level, violations, coverage, assumptions, t0, notes=None):
    """violations: list of dicts {sig:{...}, what:str, replay:{...}}"""
    open_, _fixed = known_findings()
    unknown, known_hit = [], {}
    for v in violations:
        hit = None
        for kf in open_:
            if kf.get("property") == pid and finding_matches(kf, v["sig"]):
                hit = kf
                break
        if hit is not None:
            known_hit.setdefault(hit.get("id", hit.get("what", "?")), hit)
        else:
            unknown.append(v)
    for k, kf in known_hit.items():
        print(f"KNOWN-FINDING: property={pid} {kf.get('what', k)}")
    for n in (notes or [])[:20]:
        print("NOTE: " + n)
    coverage = dict(coverage)
    coverage["known_findings_hit"] = sorted(known_hit.keys())
    write_evidence(pid, tier, level, coverage, assumptions, time.time() - t0, len(unknown))
    seen = set()
    shown = 0
    for v in unknown:
        key = json.dumps(v["sig"], sort_keys=True)
        if key in seen:
            continue
        seen.add(key)
        path = write_replay(pid, dict(property=pid, sig=v["sig"], what=v["what"], **v.get("replay", {})))
        print(f"VIOLATION property={pid} replay={path}")
        print(f"  {v['what']}")
        shown += 1
        if shown >= 5:
            break
    if not unknown:
        print(f"OK property={pid} tier={tier} wall={time.time()-t0:.1f}s")
    return 1 if unknown else 0


# ---------------------------------------------------------------- SEQ engine

def seq_collect(pid, viols, plan_jobs, summaries, chunk_files):
    """Turn judge output into violation records for property pid, notes for model divergences."""
    jobs_by_run = {j["run"]: j for j in plan_jobs}
    out, notes = [], []
    per_name = collections.Counter()
    for v in viols:
        for n in v["names"]:
            per_name[n] += 1
    for v in viols:
        ev = load_event(v["file"], v["line"])
        job = jobs_by_run.get(v["run"], {})
        if pid in v["names"]:
            sig = dict(engine="seq", op=ev["req"]["op"], resp=ev["resp"]["kind"],
                       backend=job.get("backend"), driver=job.get("driver"))
            what = (f"predicate {pid} false on observed step: run {v['run']} ({job.get('backend')}/{job.get('driver')}, "
                    f"{job.get('kind')}) step {v['i']}: {json.dumps(ev['req'])} -> {json.dumps(ev['resp'])}"
                    + (f" msg={ev.get('msg')}" if ev.get("msg") else ""))
            steps = job.get("steps", [])[: max(0, v["i"]) + 1]
            out.append(dict(sig=sig, what=what,
                            replay=dict(engine="seq", predicate=pid, job=dict(job, steps=steps),
                                        observed=load_run(v["file"], v["run"])[-3:])))
        else:
            others = [n for n in v["names"] if n in NOTE_NAMES]
            if others and len(notes) < 10:
                notes.append(f"model/code divergence without a {pid} violation at run {v['run']} step {v['i']}: {v['names']}")
    ndiv = sum(1 for s in summaries if s.get("div_at", -1) >= 0)
    if ndiv:
        notes.append(f"{ndiv} tours stopped at a step where the code left the planned model edge")
    return out, notes, per_name


def count_events(files):
    ops = collections.Counter()
    n = 0
    sample = []
    for f in files:
        with open(f) as fh:
            for line in fh:
                n += 1
                try:
                    e = json.loads(line)
                except Exception:
                    continue
                if e.get("ev") == "Op":
                    ops[(e["req"]["op"], e["resp"]["kind"])] += 1
                    if len(sample) < 6 and e["req"]["op"] in ("AddVersion", "AddSnapshot", "GetChildVersion") and n % 97 == 3:
                        sample.append({"req": e["req"], "resp": e["resp"], "post_state": e["st"]})
    return n, ops, sample


SEQ_RELEVANT = {
    "C01": lambda op, k: True,
    "C02": lambda op, k: op == "AddVersion",
    "C06": lambda op, k: k in ("found", "snap"),
    "C07": lambda op, k: True,
    "C08": lambda op, k: op == "GetChildVersion",
    "C09": lambda op, k: True,
    "C10": lambda op, k: op == "AddSnapshot",
    "C11": lambda op, k: op in ("GetSnapshot", "AddSnapshot", "Walk"),
    "C12": lambda op, k: op == "AddVersion" and k == "ok",
    "C18": lambda op, k: op in ("GetChildVersion", "GetSnapshot", "Walk", "Reopen", "Tick") or k in ("conflict", "nosuchclient", "snapok"),
}


def engine_seq(pid, tier):
    t0 = time.time()
    rng = random.Random(seed() * 7919 + 13)
    binary = build_harness()
    wd = workdir("seq-" + pid)
    jobs, run0 = [], 1
    model_stats = {}
    samples = []
    # ---- (1) TLC on the model + (2) edge emission
    models = ["small"] if tier == "quick" else ["mid"]
    if pid == "C10":
        models.append("window1" if tier == "quick" else "window")
    elif tier == "thorough":
        models.append("window1")
    # (backend, driver, fraction of the tours): every model transition runs on both backends and
    # through both entry points; the two cross combinations run a seeded sample in the quick tier
    configs_quick = [("inmemory", "lib", 1.0), ("sqlite", "http", 1.0), ("sqlite", "lib", 0.2), ("inmemory", "http", 0.2)]
    configs_full = [("inmemory", "lib", 1.0), ("sqlite", "http", 1.0), ("sqlite", "lib", 1.0), ("inmemory", "http", 1.0)]
    for mname in models:
        edges, st, cfg = seqplan.model_edges(mname, workers=8)
        model_stats[mname] = dict(states=st["distinct"], transitions=st["generated"], edges_emitted=len(edges))
        ncl = 1 if cfg["Clients"] == "{1}" else 2
        if mname.startswith("window"):
            configs = [("inmemory", "lib", 1.0), ("sqlite", "http", 1.0)]
        elif tier == "quick":
            configs = configs_quick
        else:
            configs = configs_full
        planned = {}
        for backend, driver, frac in configs:
            if driver not in planned:
                g = seqplan.Graph(edges, driver)
                planned[driver] = (g, seqplan.plan_tours(g, ncl, rng=random.Random(rng.random())))
            g, tours = planned[driver]
            if frac < 1.0:
                tours = [t for t in tours if rng.random() < frac]
            js = seqplan.tours_to_jobs(tours, g, ncl, cfg, backend, driver, run0, f"{mname}-{backend}-{driver}-")
            run0 += len(js)
            jobs += js
            model_stats[mname].setdefault("tours", {})[f"{backend}/{driver}"] = dict(
                tours=len(tours), steps=sum(len(t) for t in tours), edges=len(g.edges))
        if not samples and edges:
            e = edges[len(edges) // 3]
            samples.append({"model_edge": {"pre": e["pre"], "req": e["req"], "resp": e["resp"], "post": e["post"]}})
    ntours = len(jobs)
    # ---- (3) random long histories, implementation -> specification
    nh, ln = (24, 120) if tier == "quick" else (160, 240)
    hj = seqplan.history_jobs(rng, nh, ln, run0)
    run0 += len(hj)
    jobs += hj
    plan = {"threads": NCPU, "needs_clock": True, "jobs": jobs}
    t1 = time.time()
    summ, files = run_harness_sharded(binary, "seq", plan, wd)
    t2 = time.time()
    chunks = split_trace(files, os.path.join(wd, "chunks"))
    viols, total = judge(chunks)
    t3 = time.time()
    log(f"[seq] tlc+plan {t1-t0:.1f}s harness {t2-t1:.1f}s judge {t3-t2:.1f}s events {total}")
    found, notes, per_name = seq_collect(pid, viols, jobs, summ["summaries"], chunks)
    nev, ops, evsamples = count_events(chunks)
    rel = SEQ_RELEVANT.get(pid, lambda op, k: True)
    nontrivial = sum(n for (op, k), n in ops.items() if rel(op, k))
    samples += evsamples[:3]
    if hj:
        samples.append({"history_prefix": hj[0]["steps"][:8], "cfg": hj[0]["cfg"], "backend": hj[0]["backend"]})
    main = model_stats[models[0]]
    coverage = dict(
        states=main["states"], transitions=main["transitions"],
        traces_validated_against_impl=len(summ["summaries"]),
        samples=samples,
        exhaustive=True,
        models=model_stats,
        tours=ntours, histories=len(hj), events_judged=total,
        events_relevant_to_property=nontrivial,
        outcome_counts={f"{op}/{k}": n for (op, k), n in sorted(ops.items())},
        predicate_failures_all_properties=dict(per_name),
        tours_diverged=sum(1 for s in summ["summaries"] if s.get("div_at", -1) >= 0),
        rule=("TLC explores the bounded L2 model exhaustively and checks the property predicates of SyncProps on it; every "
              "explored transition is emitted and executed on the real code (4 backend/driver configurations), seeded random "
              "histories are added, and TLC evaluates the same predicates on every recorded step"),
    )
    assumptions = ["payloads are compared as tokens (exact byte match against the upload table)",
                   "the clock is shifted in whole days by an LD_PRELOAD shim",
                   "TLC, the JVM and the harness (state projection through the public storage trait) are trusted"]
    rc = report(pid, tier, "model_checking", found, coverage, assumptions, t0, notes)
    shutil.rmtree(wd, ignore_errors=True)
    return rc


# ---------------------------------------------------------------- HTTP engines (C14, C15, C16, C20)

def http_collect(pid, viols, jobs):
    jobs_by_run = {j["run"]: j for j in jobs}
    out, notes = [], []
    per_name = collections.Counter()
    for v in viols:
        for n in v["names"]:
            per_name[n] += 1
        if pid not in v["names"]:
            if set(v["names"]) & NOTE_NAMES and len(notes) < 10:
                notes.append(f"model/code divergence without a {pid} violation at run {v['run']} step {v['i']}: {v['names']}")
            continue
        ev = load_event(v["file"], v["line"])
        job = jobs_by_run.get(v["run"], {})
        hg = ev.get("hg", {})
        sig = dict(engine="http", op=ev["req"]["op"], status=ev.get("http", {}).get("status"),
                   route=hg.get("route"), method=hg.get("method"), cid=hg.get("cid"), pid=hg.get("pid"), ct=hg.get("ct"),
                   size=hg.get("size"), backend=job.get("backend"))
        what = (f"predicate {pid} false on observed HTTP exchange: run {v['run']} ({job.get('backend')}, {job.get('kind')}) step {v['i']}: "
                f"req={json.dumps(ev['req'])} hg={json.dumps(hg)} http={json.dumps(ev.get('http'))} twin={json.dumps(ev.get('twin', {}).get('resp'))}")
        steps = job.get("steps", [])[: max(0, v["i"]) + 1]
        out.append(dict(sig=sig, what=what[:1500], replay=dict(engine="seq", predicate=pid, job=dict(job, steps=steps),
                                                         observed=load_run(v["file"], v["run"])[-2:])))
    return out, notes, per_name


def http_event_stats(files):
    """distinct (route/op, method, status, outcome class) combinations seen in HTTP events"""
    combos = collections.Counter()
    classes = collections.Counter()
    nhttp = 0
    samples = []
    for f in files:
        with open(f) as fh:
            for line in fh:
                if '"http"' not in line:
                    continue
                e = json.loads(line)
                h = e.get("http")
                if not h:
                    continue
                nhttp += 1
                hg = e.get("hg")
                key = (hg["route"] if hg else e["req"]["op"], hg["method"] if hg else "-", h["status"], e["resp"]["kind"])
                combos[key] += 1
                if hg:
                    classes[(hg["route"], hg["method"], hg["cid"], hg["pid"], hg["ct"], hg["size"], hg["chunks"], hg["cls"])] += 1
                    if len(samples) < 4 and nhttp % 211 == 5:
                        samples.append({"grammar_request": hg, "status": h["status"], "cache_control": h["cc"]})
    return nhttp, combos, classes, samples


def engine_http(pid, tier):
    import httpplan
    t0 = time.time()
    rng = random.Random(seed() * 104729 + 7)
    binary = build_harness()
    wd = workdir("http-" + pid)
    jobs, run0 = [], 1
    stats = {}
    samples = []
    states = transitions = 0
    # ---- model tours through the HTTP handlers with a library twin (C14, C20; C16 uses the allow model)
    if pid in ("C14", "C20"):
        mname = "tiny" if (pid == "C20" or tier == "quick") else "small"
        if pid == "C14" and tier == "quick":
            mname = "small"
        edges, st, cfg = seqplan.model_edges(mname, workers=8)
        states, transitions = st["distinct"], st["generated"]
        g = seqplan.Graph(edges, "http")
        tours = seqplan.plan_tours(g, 2, rng=random.Random(rng.random()))
        for backend, frac in (("inmemory", 1.0), ("sqlite", 0.35 if tier == "quick" else 1.0)):
            ts = [t for t in tours if rng.random() < frac]
            js = seqplan.tours_to_jobs(ts, g, 2, cfg, backend, "http", run0, f"{mname}-{backend}-http-", twin=True)
            run0 += len(js)
            jobs += js
        stats["model"] = dict(name=mname, states=states, transitions=transitions, tours=len(tours), edges=len(g.edges))
        hj = seqplan.history_jobs(rng, 12 if tier == "quick" else 80, 100, run0, drivers=("http",))
        for j in hj:
            j["twin"] = True
        run0 += len(hj)
        jobs += hj
        e = edges[len(edges) // 2]
        samples.append({"model_edge": {"req": e["req"], "resp": e["resp"]}})
    # ---- allow-list model (C16, C20)
    if pid in ("C16", "C20"):
        edges, st, cfg = seqplan.allow_edges()
        g = seqplan.Graph(edges, "http")
        tours = seqplan.plan_tours(g, 2, rng=random.Random(rng.random()))
        if pid == "C20":
            tours = [t for t in tours if rng.random() < 0.25]
        for backend in ("inmemory", "sqlite"):
            js = seqplan.tours_to_jobs(tours, g, 2, cfg, backend, "http", run0, f"allow-{backend}-", walk=False, twin=True)
            run0 += len(js)
            jobs += js
        stats["allow_model"] = dict(states=st["distinct"], transitions=st["generated"], tours=len(tours), edges=len(g.edges))
        if pid == "C16":
            states, transitions = st["distinct"], st["generated"]
        samples.append({"allow_model_edge": {"allow": edges[-1].get("a0"), "req": edges[-1]["req"], "resp": edges[-1]["resp"]}})
    # ---- the request grammar (C15, C16 malformed ids under a list, C20)
    ncases = 0
    if pid in ("C15", "C16", "C20"):
        cases, gst = httpplan.grammar_cases(2 if pid == "C15" else 1, [0, 1, 20], [1, 3])
        ncases = len(cases)
        stats["grammar"] = dict(cases=len(cases), tlc_states=gst["distinct"])
        if pid == "C15":
            js = httpplan.grammar_jobs(rng, cases, run0, ("inmemory", "sqlite"))
            run0 += len(js)
            jobs += js
            big, _ = httpplan.grammar_cases(2, [20, httpplan.LIMIT - 1, httpplan.LIMIT, httpplan.LIMIT + 1], [1, 3])
            big = [c for c in big if c["size"] > 1000 and c["cid"] == "valid" and c["pid"] == "valid" and c["ct"] == "right"
                   and c["method"] == "POST"]
            stats["grammar"]["big_cases"] = len(big)
            ncases += len(big)
            js = httpplan.big_jobs(rng, big, run0, "inmemory")
            run0 += len(js)
            jobs += js
            if tier == "thorough":
                js = httpplan.big_jobs(rng, big, run0, "sqlite", prefix="bigsq")
                run0 += len(js)
                jobs += js
                ncases += len(big)
        elif pid == "C16":
            for allow in ([], [1], [1, 2]):
                js = httpplan.grammar_jobs(rng, cases, run0, ("inmemory", "sqlite"), prefix=f"gal{len(allow)}-", allow=allow)
                run0 += len(js)
                jobs += js
        else:
            js = httpplan.grammar_jobs(rng, cases, run0, ("inmemory", "sqlite"))
            run0 += len(js)
            jobs += js
    plan = {"threads": 1, "needs_clock": True, "jobs": jobs}
    t1 = time.time()
    bigj = [j for j in jobs if j.get("kind") == "grammar-big"]
    rest = [j for j in jobs if j.get("kind") != "grammar-big"]
    summ, files = run_harness_sharded(binary, "seq", dict(plan, jobs=rest), wd)
    if bigj:
        wd2 = os.path.join(wd, "big")
        os.makedirs(wd2)
        s2, f2 = run_harness_sharded(binary, "seq", dict(plan, jobs=bigj), wd2, nproc=4)   # ~1 GB per process
        summ["summaries"] += s2["summaries"]
        files += f2
    t2 = time.time()
    chunks = split_trace(files, os.path.join(wd, "chunks"))
    viols, total = judge(chunks)
    t3 = time.time()
    log(f"[http] plan {t1-t0:.1f}s harness {t2-t1:.1f}s judge {t3-t2:.1f}s events {total}")
    found, notes, per_name = http_collect(pid, viols, jobs)
    nhttp, combos, classes, hsamples = http_event_stats(chunks)
    samples += hsamples
    ndiv = sum(1 for s in summ["summaries"] if s.get("div_at", -1) >= 0)
    if ndiv:
        notes.append(f"{ndiv} tours stopped at a step where the code left the planned model edge")
    common = dict(
        samples=samples, jobs=len(jobs), events_judged=total, http_exchanges_judged=nhttp,
        distinct_route_method_status_outcome=len(combos),
        status_counts={f"{k[0]} {k[1]} {k[2]} {k[3]}": n for k, n in sorted(combos.items(), key=lambda x: str(x))[:80]},
        predicate_failures_all_properties=dict(per_name), tours_diverged=ndiv, engines=stats)
    if pid in ("C14", "C16"):
        level = "model_checking"
        coverage = dict(common, states=states, transitions=transitions,
                        traces_validated_against_impl=len(summ["summaries"]), exhaustive=True,
                        rule="every transition of the bounded model is executed through the real HTTP handlers on both backends with a "
                             "library twin on a twin storage in lock step; TLC judges every exchange")
    else:
        level = "exploration"
        nontriv = sum(1 for k in classes if k[-1] != "yes") if pid == "C15" else len(combos)
        coverage = dict(common, evaluations=max(nhttp, 1), distinct_nontrivial=nontriv, exhaustive=(pid == "C15"),
                        rule=("C15: TLC enumerates every request of the grammar (spec/SyncHttp.tla) that deviates from the well-formed "
                              "baseline of its route in at most 2 dimensions; distinct_nontrivial = distinct grammar requests whose class is "
                              "malformed or either. C20: distinct (route/op, method, status, outcome) combinations over all HTTP explorations"),
                        grammar_cases=ncases)
    assumptions = ["in-process actix service (WebServer::config + actix_web::test); syntactically invalid HTTP is answered below the application and is not claimed",
                   "one concrete spelling per grammar form",
                   "TLC strings are atomic: the harness reports whether a Cache-Control directive equals no-store"]
    rc = report(pid, tier, level, found, coverage, assumptions, t0, notes)
    shutil.rmtree(wd, ignore_errors=True)
    return rc


# ---------------------------------------------------------------- dispatch

ENGINES = {}
for _p in SEQ_PROPS:
    ENGINES[_p] = engine_seq
for _p in ("C14", "C15", "C16", "C20"):
    ENGINES[_p] = engine_http


def cmd_setup():
    build_harness()
    bad = []
    for f in sorted(glob.glob(os.path.join(SPEC, "*.tla"))):
        p = sh(["java", "-cp", TLA_CP, "tla2sany.SANY", f], cwd=SPEC, timeout=300)
        if "Semantic errors" in p.stdout or "Parse Error" in p.stdout or p.returncode != 0 and "error" in p.stdout.lower():
            bad.append(os.path.basename(f))
    if bad:
        print("SANY errors in: " + " ".join(bad))
        return 2
    print("setup ok")
    return 0


def main(argv):
    if not argv:
        print(__doc__ or "usage: check <Cxx> [quick|thorough]")
        return 2
    try:
        if argv[0] == "setup":
            return cmd_setup()
        if argv[0] == "replay":
            import replay
            return replay.main(argv[1:])
        if argv[0] == "selftest":
            import selftest
            return selftest.main(argv[1:])
        pid = argv[0]
        if pid not in ENGINES:
            print(f"no check for {pid}")
            return 2
        return ENGINES[pid](pid, tier_of(argv[1:]))
    except ToolError as e:
        print("TOOL-ERROR: " + str(e)[:6000])
        return 2
    except subprocess.TimeoutExpired as e:
        print("TOOL-ERROR: timeout " + str(e)[:500])
        return 2


import subprocess
