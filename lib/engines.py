"""Engines: one function per family of properties; all verdicts come from TLC."""
import json, os, random, shutil, sys, time, collections, glob
from common import *
import seqplan

SEQ_PROPS = {"C01", "C02", "C06", "C07", "C08", "C09", "C10", "C11", "C12", "C18"}
NOTE_NAMES = {"M_conf", "M_ghost", "M_reset"}


def tier_of(argv):
    t = os.environ.get("VERIF_TIER", "")
    for a in argv:
        if a in ("quick", "thorough"):
            t = a
    return t if t in ("quick", "thorough") else "quick"


# ---------------------------------------------------------------- reporting

def finding_matches(kf, sig):
    m = kf.get("match", {})
    return all(sig.get(k) == v for k, v in m.items())


def report(pid, tier, level, violations, coverage, assumptions, t0, notes=None):
    """violations: list of dicts {sig:{...}, what:str, replay:{...}}"""
    open_, _fixed = known_findings()
    unknown, known_hit = [], {}
    for v in violations:
        hit = None
        for kf in open_:
            if kf.get("property") == pid and finding_matches(kf, v["sig"]):
                hit = kf
                break
        if hit is not None:
            known_hit.setdefault(hit.get("id", hit.get("what", "?")), hit)
        else:
            unknown.append(v)
    for k, kf in known_hit.items():
        print(f"KNOWN-FINDING: property={pid} {kf.get('what', k)}")
    for n in (notes or [])[:20]:
        print("NOTE: " + n)
    coverage = dict(coverage)
    coverage["known_findings_hit"] = sorted(known_hit.keys())
    write_evidence(pid, tier, level, coverage, assumptions, time.time() - t0, len(unknown))
    seen = set()
    shown = 0
    for v in unknown:
        key = json.dumps(v["sig"], sort_keys=True)
        if key in seen:
            continue
        seen.add(key)
        path = write_replay(pid, dict(property=pid, sig=v["sig"], what=v["what"], **v.get("replay", {})))
        print(f"VIOLATION property={pid} replay={path}")
        print(f"  {v['what']}")
        shown += 1
        if shown >= 5:
            break
    if not unknown:
        print(f"OK property={pid} tier={tier} wall={time.time()-t0:.1f}s")
    return 1 if unknown else 0


# ---------------------------------------------------------------- SEQ engine

def seq_collect(pid, viols, plan_jobs, summaries, chunk_files):
    """Turn judge output into violation records for property pid, notes for model divergences."""
    jobs_by_run = {j["run"]: j for j in plan_jobs}
    out, notes = [], []
    per_name = collections.Counter()
    for v in viols:
        for n in v["names"]:
            per_name[n] += 1
    for v in viols:
        ev = load_event(v["file"], v["line"])
        job = jobs_by_run.get(v["run"], {})
        if pid in v["names"]:
            sig = dict(engine="seq", op=ev["req"]["op"], resp=ev["resp"]["kind"],
                       backend=job.get("backend"), driver=job.get("driver"))
            what = (f"predicate {pid} false on observed step: run {v['run']} ({job.get('backend')}/{job.get('driver')}, "
                    f"{job.get('kind')}) step {v['i']}: {json.dumps(ev['req'])} -> {json.dumps(ev['resp'])}"
                    + (f" msg={ev.get('msg')}" if ev.get("msg") else ""))
            steps = job.get("steps", [])[: max(0, v["i"]) + 1]
            out.append(dict(sig=sig, what=what,
                            replay=dict(engine="seq", predicate=pid, job=dict(job, steps=steps),
                                        observed=load_run(v["file"], v["run"])[-3:])))
        else:
            others = [n for n in v["names"] if n in NOTE_NAMES]
            if others and len(notes) < 10:
                notes.append(f"model/code divergence without a {pid} violation at run {v['run']} step {v['i']}: {v['names']}")
    ndiv = sum(1 for s in summaries if s.get("div_at", -1) >= 0)
    if ndiv:
        notes.append(f"{ndiv} tours stopped at a step where the code left the planned model edge")
    return out, notes, per_name


def count_events(files):
    ops = collections.Counter()
    n = 0
    sample = []
    for f in files:
        with open(f) as fh:
            for line in fh:
                n += 1
                try:
                    e = json.loads(line)
                except Exception:
                    continue
                if e.get("ev") == "Op":
                    ops[(e["req"]["op"], e["resp"]["kind"])] += 1
                    if len(sample) < 6 and e["req"]["op"] in ("AddVersion", "AddSnapshot", "GetChildVersion") and n % 97 == 3:
                        sample.append({"req": e["req"], "resp": e["resp"], "post_state": e["st"]})
    return n, ops, sample


SEQ_RELEVANT = {
    "C01": lambda op, k: True,
    "C02": lambda op, k: op == "AddVersion",
    "C06": lambda op, k: k in ("found", "snap"),
    "C07": lambda op, k: True,
    "C08": lambda op, k: op == "GetChildVersion",
    "C09": lambda op, k: True,
    "C10": lambda op, k: op == "AddSnapshot",
    "C11": lambda op, k: op in ("GetSnapshot", "AddSnapshot", "Walk"),
    "C12": lambda op, k: op == "AddVersion" and k == "ok",
    "C18": lambda op, k: op in ("GetChildVersion", "GetSnapshot", "Walk", "Reopen", "Tick") or k in ("conflict", "nosuchclient", "snapok"),
}


def engine_seq(pid, tier):
    t0 = time.time()
    rng = random.Random(seed() * 7919 + 13)
    binary = build_harness()
    wd = workdir("seq-" + pid)
    jobs, run0 = [], 1
    model_stats = {}
    samples = []
    # ---- (1) TLC on the model + (2) edge emission
    models = ["small"] if tier == "quick" else ["mid"]
    if pid == "C10":
        models.append("window1" if tier == "quick" else "window")
    elif tier == "thorough":
        models.append("window1")
    # (backend, driver, fraction of the tours): every model transition runs on both backends and
    # through both entry points; the two cross combinations run a seeded sample in the quick tier
    configs_quick = [("inmemory", "lib", 1.0), ("sqlite", "http", 1.0), ("sqlite", "lib", 0.2), ("inmemory", "http", 0.2)]
    configs_full = [("inmemory", "lib", 1.0), ("sqlite", "http", 1.0), ("sqlite", "lib", 1.0), ("inmemory", "http", 1.0)]
    for mname in models:
        edges, st, cfg = seqplan.model_edges(mname, workers=8)
        model_stats[mname] = dict(states=st["distinct"], transitions=st["generated"], edges_emitted=len(edges))
        ncl = 1 if cfg["Clients"] == "{1}" else 2
        if mname.startswith("window"):
            configs = [("inmemory", "lib", 1.0), ("sqlite", "http", 1.0)]
        elif tier == "quick":
            configs = configs_quick
        else:
            configs = configs_full
        planned = {}
        for backend, driver, frac in configs:
            if driver not in planned:
                g = seqplan.Graph(edges, driver)
                planned[driver] = (g, seqplan.plan_tours(g, ncl, rng=random.Random(rng.random())))
            g, tours = planned[driver]
            if frac < 1.0:
                tours = [t for t in tours if rng.random() < frac]
            js = seqplan.tours_to_jobs(tours, g, ncl, cfg, backend, driver, run0, f"{mname}-{backend}-{driver}-")
            run0 += len(js)
            jobs += js
            model_stats[mname].setdefault("tours", {})[f"{backend}/{driver}"] = dict(
                tours=len(tours), steps=sum(len(t) for t in tours), edges=len(g.edges))
        if not samples and edges:
            e = edges[len(edges) // 3]
            samples.append({"model_edge": {"pre": e["pre"], "req": e["req"], "resp": e["resp"], "post": e["post"]}})
    ntours = len(jobs)
    # ---- (3) random long histories, implementation -> specification
    nh, ln = (24, 120) if tier == "quick" else (160, 240)
    hj = seqplan.history_jobs(rng, nh, ln, run0)
    run0 += len(hj)
    jobs += hj
    plan = {"threads": NCPU, "needs_clock": True, "jobs": jobs}
    t1 = time.time()
    summ, files = run_harness_sharded(binary, "seq", plan, wd)
    t2 = time.time()
    chunks = split_trace(files, os.path.join(wd, "chunks"))
    viols, total = judge(chunks)
    t3 = time.time()
    log(f"[seq] tlc+plan {t1-t0:.1f}s harness {t2-t1:.1f}s judge {t3-t2:.1f}s events {total}")
    found, notes, per_name = seq_collect(pid, viols, jobs, summ["summaries"], chunks)
    nev, ops, evsamples = count_events(chunks)
    rel = SEQ_RELEVANT.get(pid, lambda op, k: True)
    nontrivial = sum(n for (op, k), n in ops.items() if rel(op, k))
    samples += evsamples[:3]
    if hj:
        samples.append({"history_prefix": hj[0]["steps"][:8], "cfg": hj[0]["cfg"], "backend": hj[0]["backend"]})
    main = model_stats[models[0]]
    coverage = dict(
        states=main["states"], transitions=main["transitions"],
        traces_validated_against_impl=len(summ["summaries"]),
        samples=samples,
        exhaustive=True,
        models=model_stats,
        tours=ntours, histories=len(hj), events_judged=total,
        events_relevant_to_property=nontrivial,
        outcome_counts={f"{op}/{k}": n for (op, k), n in sorted(ops.items())},
        predicate_failures_all_properties=dict(per_name),
        tours_diverged=sum(1 for s in summ["summaries"] if s.get("div_at", -1) >= 0),
        rule=("TLC explores the bounded L2 model exhaustively and checks the property predicates of SyncProps on it; every "
              "explored transition is emitted and executed on the real code (4 backend/driver configurations), seeded random "
              "histories are added, and TLC evaluates the same predicates on every recorded step"),
    )
    assumptions = ["payloads are compared as tokens (exact byte match against the upload table)",
                   "the clock is shifted in whole days by an LD_PRELOAD shim",
                   "TLC, the JVM and the harness (state projection through the public storage trait) are trusted"]
    rc = report(pid, tier, "model_checking", found, coverage, assumptions, t0, notes)
    shutil.rmtree(wd, ignore_errors=True)
    return rc


# ---------------------------------------------------------------- dispatch

ENGINES = {}
for _p in SEQ_PROPS:
    ENGINES[_p] = engine_seq


def cmd_setup():
    build_harness()
    bad = []
    for f in sorted(glob.glob(os.path.join(SPEC, "*.tla"))):
        p = sh(["java", "-cp", TLA_CP, "tla2sany.SANY", f], cwd=SPEC, timeout=300)
        if "Semantic errors" in p.stdout or "Parse Error" in p.stdout or p.returncode != 0 and "error" in p.stdout.lower():
            bad.append(os.path.basename(f))
    if bad:
        print("SANY errors in: " + " ".join(bad))
        return 2
    print("setup ok")
    return 0


def main(argv):
    if not argv:
        print(__doc__ or "usage: check <Cxx> [quick|thorough]")
        return 2
    try:
        if argv[0] == "setup":
            return cmd_setup()
        if argv[0] == "replay":
            import replay
            return replay.main(argv[1:])
        if argv[0] == "selftest":
            import selftest
            return selftest.main(argv[1:])
        pid = argv[0]
        if pid not in ENGINES:
            print(f"no check for {pid}")
            return 2
        return ENGINES[pid](pid, tier_of(argv[1:]))
    except ToolError as e:
        print("TOOL-ERROR: " + str(e)[:6000])
        return 2
    except subprocess.TimeoutExpired as e:
        print("TOOL-ERROR: timeout " + str(e)[:500])
        return 2


import subprocess
