"""Engines: one function per family of properties; all verdicts come from TLC."""
import json, os, random, re, shutil, sys, time, collections, glob, zlib
from common import *
import seqplan

SEQ_PROPS = {"C01", "C02", "C06", "C07", "C08", "C09", "C10", "C11", "C12", "C18"}
NOTE_NAMES = {"M_conf", "M_ghost", "M_reset"}


def tier_of(argv):
    t = os.environ.get("VERIF_TIER", "")
    for a in argv:
        if a in ("quick", "thorough"):
            t = a
    return t if t in ("quick", "thorough") else "quick"


# ---------------------------------------------------------------- reporting

def finding_matches(kf, sig):
    m = kf.get("match", {})
    return all(sig.get(k) == v for k, v in m.items())


def report(pid, tier, level, violations, coverage, assumptions, t0, notes=None):
    """violations: list of dicts {sig:{...}, what:str, replay:{...}}"""
    open_, _fixed = known_findings()
    unknown, known_hit = [], {}
    for v in violations:
        hit = None
        for kf in open_:
            if kf.get("property") == pid and finding_matches(kf, v["sig"]):
                hit = kf
                break
        if hit is not None:
            known_hit.setdefault(hit.get("id", hit.get("what", "?")), hit)
        else:
            unknown.append(v)
    for k, kf in known_hit.items():
        print(f"KNOWN-FINDING: property={pid} {kf.get('what', k)}")
    for n in (notes or [])[:20]:
        print("NOTE: " + n)
    coverage = dict(coverage)
    coverage["known_findings_hit"] = sorted(known_hit.keys())
    write_evidence(pid, tier, level, coverage, assumptions, time.time() - t0, len(unknown))
    seen = set()
    shown = 0
    for v in unknown:
        key = json.dumps(v["sig"], sort_keys=True)
        if key in seen:
            continue
        seen.add(key)
        path = write_replay(pid, dict(property=pid, sig=v["sig"], what=v["what"], **v.get("replay", {})))
        print(f"VIOLATION property={pid} replay={path}")
        print(f"  {v['what']}")
        shown += 1
        if shown >= 5:
            break
    if not unknown:
        print(f"OK property={pid} tier={tier} wall={time.time()-t0:.1f}s")
    return 1 if unknown else 0


# ---------------------------------------------------------------- SEQ engine

def seq_collect(pid, viols, plan_jobs, summaries, chunk_files):
    """Turn judge output into violation records for property pid, notes for model divergences."""
    jobs_by_run = {j["run"]: j for j in plan_jobs}
    out, notes = [], []
    per_name = collections.Counter()
    for v in viols:
        for n in v["names"]:
            per_name[n] += 1
    nrep = 0
    for v in viols:
        if pid in v["names"]:
            nrep += 1
            if nrep > 40:
                continue        # enough scenarios to report; the counts are in per_name
        ev = load_event(v["file"], v["line"]) if (pid in v["names"] or len(notes) < 10) else None
        job = jobs_by_run.get(v["run"], {})
        if pid in v["names"]:
            sig = dict(engine="seq", op=ev["req"]["op"], resp=ev["resp"]["kind"],
                       backend=job.get("backend"), driver=job.get("driver"))
            what = (f"predicate {pid} false on observed step: run {v['run']} ({job.get('backend')}/{job.get('driver')}, "
                    f"{job.get('kind')}) step {v['i']}: {json.dumps(ev['req'])} -> {json.dumps(ev['resp'])}"
                    + (f" msg={ev.get('msg')}" if ev.get("msg") else ""))
            steps = job.get("steps", [])[: max(0, v["i"]) + 1]
            out.append(dict(sig=sig, what=what,
                            replay=dict(engine="seq", predicate=pid, job=dict(job, steps=steps),
                                        observed=load_run(v["file"], v["run"])[-3:])))
        else:
            others = [n for n in v["names"] if n in NOTE_NAMES]
            if others and len(notes) < 10:
                notes.append(f"model/code divergence without a {pid} violation at run {v['run']} step {v['i']}: {v['names']}")
    ndiv = sum(1 for s in summaries if s.get("div_at", -1) >= 0)
    if ndiv:
        notes.append(f"{ndiv} tours stopped at a step where the code left the planned model edge")
    return out, notes, per_name


def count_events(files):
    ops = collections.Counter()
    n = 0
    sample = []
    for f in files:
        with open(f) as fh:
            for line in fh:
                n += 1
                try:
                    e = json.loads(line)
                except Exception:
                    continue
                if e.get("ev") == "Op":
                    ops[(e["req"]["op"], e["resp"]["kind"])] += 1
                    if len(sample) < 6 and e["req"]["op"] in ("AddVersion", "AddSnapshot", "GetChildVersion") and n % 97 == 3:
                        sample.append({"req": e["req"], "resp": e["resp"], "post_state": e["st"]})
    return n, ops, sample


SEQ_RELEVANT = {
    "C01": lambda op, k: True,
    "C02": lambda op, k: op == "AddVersion",
    "C06": lambda op, k: k in ("found", "snap"),
    "C07": lambda op, k: True,
    "C08": lambda op, k: op == "GetChildVersion",
    "C09": lambda op, k: True,
    "C10": lambda op, k: op == "AddSnapshot",
    "C11": lambda op, k: op in ("GetSnapshot", "AddSnapshot", "Walk"),
    "C12": lambda op, k: op == "AddVersion" and k == "ok",
    "C18": lambda op, k: op in ("GetChildVersion", "GetSnapshot", "Walk", "Reopen", "Tick") or k in ("conflict", "nosuchclient", "snapok"),
}


def tests_facet(pid):
    """The repository's own test suite, run with the verification hook compiled in (--cfg tcss_verif): every
    protocol operation a test performs is recorded as a self-contained step and judged by TLC (spec/TraceStep.tla)."""
    tdir = workdir("hooktrace-" + pid)
    env = {"RUSTFLAGS": "--cfg tcss_verif --check-cfg cfg(tcss_verif)", "CARGO_TARGET_DIR": os.path.join(BUILD, "hook-target"),
           "TCSS_TRACE_DIR": tdir, "CARGO_NET_OFFLINE": "true"}
    p = sh(["cargo", "test", "--workspace", "--offline", "--no-fail-fast"], cwd=REPO, env=env, timeout=2400)
    passed = sum(int(m) for m in re.findall(r"test result: \w+\. (\d+) passed", p.stdout))
    failed = sum(int(m) for m in re.findall(r"test result: \w+\. \d+ passed; (\d+) failed", p.stdout))
    if passed == 0 and p.returncode != 0:
        raise ToolError("the repository's test suite does not build with the hook on:\n" + p.stderr[-3000:])
    allf = os.path.join(tdir, "all.ndjson")
    n = 0
    with open(allf, "w") as w:
        for f in sorted(glob.glob(os.path.join(tdir, "trace-*.ndjson"))):
            for line in open(f):
                w.write(line)
                n += 1
    found = []
    total = 0
    if n:
        viols, total = judge([allf], spec="TraceStep.tla")
        for v in viols:
            if pid not in v["names"] or len(found) >= 10:
                continue
            e = load_event(allf, v["line"])
            found.append(dict(sig=dict(engine="tests", test=e.get("test"), op=e["req"]["op"], resp=e["resp"]["kind"]),
                              what=f"{pid} false on a step recorded from the repository's own test {e.get('test')}: {json.dumps(e['req'])} -> {json.dumps(e['resp'])} "
                                   f"pre={json.dumps(e['pre'])[:300]} post={json.dumps(e['post'])[:300]}",
                              replay=dict(engine="tests", predicate=pid, event=e)))
    shutil.rmtree(tdir, ignore_errors=True)
    return found, dict(repo_tests_passed=passed, repo_tests_failed=failed, steps_recorded=n, steps_judged=total)


CONC_FOCUS = {
    "C01": {("AddVersion", "AddVersion")},
    "C02": {("AddVersion", "AddVersion")},
    "C07": {("AddVersion", "AddVersion")},
    "C08": {("AddVersion", "GetChildVersion")},
    "C10": {("AddSnapshot", "AddSnapshot"), ("AddSnapshot", "AddVersion")},
    "C11": {("AddSnapshot", "GetSnapshot"), ("AddSnapshot", "AddVersion"), ("AddVersion", "GetSnapshot"), ("AddSnapshot", "AddSnapshot")},
}


def engine_seq(pid, tier, evidence=True):
    t0 = time.time()
    rng = random.Random(seed() * 7919 + 13)
    binary = build_harness()
    wd = workdir("seq-" + pid)
    jobs, run0 = [], 1
    model_stats = {}
    samples = []
    # ---- (1) TLC on the model + (2) edge emission
    models = ["small"] if tier == "quick" else ["mid"]
    if pid == "C10":
        models.append("window1" if tier == "quick" else "window")
    elif tier == "thorough":
        models.append("window1")
    # (backend, driver, fraction of the tours): every model transition runs on both backends and
    # through both entry points; the two cross combinations run a seeded sample in the quick tier
    configs_quick = [("inmemory", "lib", 1.0), ("sqlite", "http", 1.0), ("sqlite", "lib", 0.2), ("inmemory", "http", 0.2)]
    configs_full = [("inmemory", "lib", 1.0), ("sqlite", "http", 1.0), ("sqlite", "lib", 1.0), ("inmemory", "http", 1.0)]
    for mname in models:
        edges, st, cfg = seqplan.model_edges(mname, workers=8)
        model_stats[mname] = dict(states=st["distinct"], transitions=st["generated"], edges_emitted=len(edges))
        ncl = 1 if cfg["Clients"] == "{1}" else 2
        if mname.startswith("window"):
            configs = [("inmemory", "lib", 1.0), ("sqlite", "http", 1.0)]
        elif tier == "quick":
            configs = configs_quick
        else:
            configs = configs_full
        planned = {}
        for backend, driver, frac in configs:
            if driver not in planned:
                g = seqplan.Graph(edges, driver)
                planned[driver] = (g, seqplan.plan_tours(g, ncl, rng=random.Random(rng.random())))
            g, tours = planned[driver]
            if frac < 1.0:
                tours = [t for t in tours if rng.random() < frac]
            js = seqplan.tours_to_jobs(tours, g, ncl, cfg, backend, driver, run0, f"{mname}-{backend}-{driver}-")
            run0 += len(js)
            jobs += js
            model_stats[mname].setdefault("tours", {})[f"{backend}/{driver}"] = dict(
                tours=len(tours), steps=sum(len(t) for t in tours), edges=len(g.edges))
        if not samples and edges:
            e = edges[len(edges) // 3]
            samples.append({"model_edge": {"pre": e["pre"], "req": e["req"], "resp": e["resp"], "post": e["post"]}})
    ntours = len(jobs)
    # ---- (3) random long histories, implementation -> specification
    nh, ln = (24, 120) if tier == "quick" else (160, 240)
    hj = seqplan.history_jobs(rng, nh, ln, run0)
    for i, j in enumerate(hj):
        if i % 3 == 1:
            j["instances"] = 2          # two server instances on the same data, requests alternate between them
    run0 += len(hj)
    jobs += hj
    # a sample of the tours through two alternating server instances as well
    twin_inst = [dict(j, id=j["id"] + "-2i", run=run0 + i, instances=2) for i, j in enumerate(jx for jx in jobs[:ntours] if rng.random() < (0.08 if tier == "quick" else 0.3))]
    run0 += len(twin_inst)
    jobs += twin_inst
    # uploads in flight at the same time (real sockets, pieces interleaved), other requests served in between
    oj = seqplan.overlap_jobs(rng, 4 if tier == "quick" else 32, run0)
    run0 += len(oj)
    jobs += oj
    if pid == "C11":
        # uploads that are refused or break in the middle must never become the served snapshot
        import httpplan
        cases, _gst = httpplan.grammar_cases(1, [0, 1, 20], [1, 3])
        cases = [c for c in cases if c["route"] == "as" and c["method"] == "POST"]
        gj = []
        for b in ("inmemory", "sqlite"):
            for drv in ("http", "sock"):
                steps = list(httpplan.PREFIX)
                for c in cases:
                    # a fresh latest version first, so that a snapshot for it WOULD be accepted if the upload were taken
                    st_ = httpplan.case_step(rng, c, c=1)
                    st_["arg"] = {"sym": "latest"}
                    steps += [{"op": "AddVersion", "c": 1, "arg": {"sym": "latest"}}, st_, {"op": "GetSnapshot", "c": 1}]
                gj.append({"id": f"c11g-{b}-{drv}", "run": run0, "backend": b, "driver": drv, "cfg": {"days": 2, "versions": 3}, "nclients": 3,
                           "steps": steps, "first_free": 1, "kind": "grammar"})
                run0 += 1
        jobs += gj
    if pid == "C18":
        # refused requests (the request grammar's malformed cases) must leave everything untouched as well
        import httpplan
        cases, _gst = httpplan.grammar_cases(1, [0, 1, 20], [1, 3])
        gj = httpplan.grammar_jobs(rng, cases, run0, ("inmemory", "sqlite"))
        run0 += len(gj)
        jobs += gj
    plan = {"threads": NCPU, "needs_clock": True, "jobs": jobs}
    t1 = time.time()
    summ, files = run_harness_sharded(binary, "seq", plan, wd, env=SOCK_ENV)
    t2 = time.time()
    chunks = split_trace(files, os.path.join(wd, "chunks"))
    viols, total = judge(chunks)
    t3 = time.time()
    log(f"[seq] tlc+plan {t1-t0:.1f}s harness {t2-t1:.1f}s judge {t3-t2:.1f}s events {total}")
    found, notes, per_name = seq_collect(pid, viols, jobs, summ["summaries"], chunks)
    ustats, ubad = upload_conformance(files, wd)
    jr_ = {j["run"]: j for j in jobs}
    for kind, f_, ln_, e_ in ubad:
        job_ = jr_.get(e_["run"], {})
        if pid == "C09" and kind == "probe" and len(found) < 40:
            found.append(dict(sig=dict(engine="upload", kind=kind, backend=job_.get("backend"), workers=job_.get("workers")),
                              what=f"C09: a request was not served while another upload was in flight (SyncUpload NoHolding) at run {e_['run']} step {e_['i']} "
                                   f"({job_.get('backend')}/sock, {job_.get('workers')} worker(s)); socket steps {json.dumps(e_['overlap']['phases'])[:700]}",
                              replay=dict(engine="seq", predicate=pid, job=dict(job_, steps=job_.get("steps", [])[: max(0, e_["i"]) + 1]))))
        elif len(notes) < 10:
            notes.append(f"upload path: {kind} step without a SyncUpload action at run {e_['run']} step {e_['i']} ({job_.get('backend')}, {job_.get('workers')} worker(s))")
    nev, ops, evsamples = count_events(chunks)
    rel = SEQ_RELEVANT.get(pid, lambda op, k: True)
    nontrivial = sum(n for (op, k), n in ops.items() if rel(op, k))
    samples += evsamples[:3]
    if hj:
        samples.append({"history_prefix": hj[0]["steps"][:8], "cfg": hj[0]["cfg"], "backend": hj[0]["backend"]})
    main = model_stats[models[0]]
    coverage = dict(
        states=main["states"], transitions=main["transitions"],
        traces_validated_against_impl=len(summ["summaries"]),
        samples=samples,
        exhaustive=True,
        models=model_stats,
        tours=ntours, histories=len(hj), events_judged=total,
        events_relevant_to_property=nontrivial,
        outcome_counts={f"{op}/{k}": n for (op, k), n in sorted(ops.items())},
        predicate_failures_all_properties=dict(per_name),
        tours_diverged=sum(1 for s in summ["summaries"] if s.get("div_at", -1) >= 0),
        rule=("TLC explores the bounded L2 model exhaustively and checks the property predicates of SyncProps on it; every "
              "explored transition is emitted and executed on the real code (4 backend/driver configurations), seeded random "
              "histories are added, and TLC evaluates the same predicates on every recorded step"),
    )
    assumptions = ["payloads are compared as tokens (exact byte match against the upload table)",
                   "the clock is shifted in whole days by an LD_PRELOAD shim",
                   "TLC, the JVM and the harness (state projection through the public storage trait) are trusted"]
    if not evidence:
        shutil.rmtree(wd, ignore_errors=True)
        return dict(found=found, notes=notes, coverage={k: coverage[k] for k in ("states", "transitions", "tours", "histories", "events_judged", "events_relevant_to_property")})
    # fault facet: a read (GetChildVersion / GetSnapshot) during which a storage step fails must answer with an error or correctly
    if pid in ("C01", "C07", "C08", "C11"):
        fj = []
        rop, pred = ("GetSnapshot", "C11f") if pid == "C11" else ("GetChildVersion", "C08f")
        # (history, level): C11 wants states with and without a stored snapshot, and a client the server never saw
        hists = ((FAULT_HISTORIES[0][:4], "http"), (FAULT_HISTORIES[0][:6], "lib"), (FAULT_HISTORIES[1][:5], "http")) if pid != "C11" else \
                ((FAULT_HISTORIES[0][:3], "http"), (FAULT_HISTORIES[0][:8], "lib"), (FAULT_HISTORIES[0][:8], "http"), (FAULT_HISTORIES[0][:2], "http"),
                 (FAULT_HISTORIES[1][:6], "http"), ([], "http"))
        for i, (hist, lvl) in enumerate(hists):
            for argk in (("nil", "mid", "old", "latest", "rnd") if pid != "C11" else ("nil",)):
                fj.append({"id": f"gf{i}-{argk}", "mode": "sweep", "backend": "sqlite", "instances": "shared", "cfg": {"days": 14, "versions": 100},
                           "seed": [{"op": o, "arg": ARGK_SYM[a]} for o, a in hist], "reqs": [{"op": rop, "argk": argk, "lvl": lvl}],
                           "follow": ([{"op": "GetSnapshot"}] if pid == "C11" else []), "io_variants": "quick", "io_stride": 2, "max_rounds": 120})
        wdf = workdir("readfault-" + pid)
        ffiles, nfr, _pj = run_conc_jobs(binary, fj, wdf)
        fviols, ftot = judge(ffiles, spec="TraceConc.tla")
        for v in fviols:
            if pred not in v["names"] or len(found) >= 40:
                continue
            e = load_event(v["file"], v["line"])
            found.append(dict(sig=dict(engine="readfault", resp=e["resps"][0]["kind"], sweep=e.get("info", {}).get("sweep")),
                              what=f"{pid}: {rop} {e['reqs'][0]} with fault {e.get('info')} answered {e['resps'][0]} although a storage step failed; "
                                   f"follow-ups {[(f['resp']['kind']) for f in e['follow']]}; "
                                   f"the stored state is latest={e['seed']['l']} snapshot={e['seed']['s']} versions={[(x['vid'], x['parent']) for x in e['seed']['v']]}",
                              replay=dict(engine="conc", predicate=pred, round=e)))
        coverage["fault_facet"] = dict(rounds_judged=ftot, sweep_jobs=len(fj), request=rop)
        shutil.rmtree(wdf, ignore_errors=True)
    if pid == "C18":
        # refused for lack of the write lock (somebody else holds it for k lock attempts): still nothing may change
        lj = []
        for i, (op, argk) in enumerate(FAULT_HISTORIES[0]):
            for lvl in ("http", "lib"):
                if lvl == "lib" and tier == "quick" and i % 2:
                    continue
                lj.append({"id": f"l18-{lvl}-{i}", "mode": "lock", "backend": "sqlite", "instances": "shared", "cfg": {"days": 14, "versions": 100},
                           "seed": [{"op": o, "arg": ARGK_SYM[a]} for o, a in FAULT_HISTORIES[0][:i]], "reqs": [{"op": op, "argk": argk, "lvl": lvl}],
                           "follow": [], "max_rounds": 120})
        # ... and when the disk is slow (one I/O call of the request takes 6 s): a server that gives up on the request must
        # not let it take effect afterwards
        for i in ((1, 2, 7) if tier == "quick" else range(len(FAULT_HISTORIES[0]))):
            op, argk = FAULT_HISTORIES[0][i]
            if not op.startswith("Add"):
                continue
            lj.append({"id": f"s18-{i}", "mode": "slow", "delay_ms": 6000, "backend": "sqlite", "instances": "shared", "cfg": {"days": 14, "versions": 100},
                       "seed": [{"op": o, "arg": ARGK_SYM[a]} for o, a in FAULT_HISTORIES[0][:i]], "reqs": [{"op": op, "argk": argk, "lvl": "http"}],
                       "follow": [], "max_rounds": 120})
        wdl = workdir("lock18")
        lfiles, _nl, _pl = run_conc_jobs(binary, lj, wdl)
        lviols, ltot = judge(lfiles, spec="TraceConc.tla")
        for v in lviols:
            if "C18f" not in v["names"] or len(found) >= 40:
                continue
            e = load_event(v["file"], v["line"])
            found.append(dict(sig=dict(engine="lock18", op=e["reqs"][0]["op"], lvl=e["reqs"][0]["lvl"], n=e["lockbusy"]["n"]),
                              what=f"C18: {e['reqs'][0]} was refused ({e['resps'][0]}) while the write lock was held by somebody else for {e['lockbusy']['n']} lock attempts, "
                                   f"yet the stored state changed: before latest={e['seed']['l']} nv={len(e['seed']['v'])} snap={e['seed']['s']}, after latest={e['final']['l']} nv={len(e['final']['v'])} snap={e['final']['s']}",
                              replay=dict(engine="conc", predicate="C18f", round=e)))
        coverage["lock_contention_facet"] = dict(rounds_judged=ltot, sweep_jobs=len(lj))
        shutil.rmtree(wdl, ignore_errors=True)
    # the repository's own tests as traces (hook build)
    tf, tcov = tests_facet(pid)
    found += tf
    coverage["repo_test_suite_facet"] = tcov
    # schedule facet: the same property on overlapping requests under the controlled scheduler
    if pid in CONC_FOCUS:
        cr = engine_conc(pid, tier, evidence=False, focus=CONC_FOCUS[pid])
        found += cr["found"]
        coverage["schedule_facet"] = dict(rounds_judged=cr["rounds"], request_pairs=sorted("/".join(p) for p in CONC_FOCUS[pid]), model_runs=cr["model_runs"])
    rc = report(pid, tier, "model_checking", found, coverage, assumptions, t0, notes)
    shutil.rmtree(wd, ignore_errors=True)
    return rc


# a socket request that is not answered within this many seconds counts as unanswered (SQLite gives up on a lock after 5 s)
SOCK_ENV = {"TCSS_SOCK_TIMEOUT": "20"}


# ---------------------------------------------------------------- HTTP engines (C14, C15, C16, C20)

def http_collect(pid, viols, jobs):
    jobs_by_run = {j["run"]: j for j in jobs}
    out, notes = [], []
    per_name = collections.Counter()
    for v in viols:
        for n in v["names"]:
            per_name[n] += 1
        if len(out) >= 40:
            continue
        if pid not in v["names"]:
            if set(v["names"]) & NOTE_NAMES and len(notes) < 10:
                ev0 = load_event(v["file"], v["line"])
                notes.append(f"model/code divergence without a {pid} violation at run {v['run']} step {v['i']}: {v['names']} "
                             f"req={json.dumps(ev0.get('req'))} hg={json.dumps(ev0.get('hg'))} resp={json.dumps(ev0.get('resp'))} http={json.dumps(ev0.get('http'))}"[:900])
            continue
        ev = load_event(v["file"], v["line"])
        job = jobs_by_run.get(v["run"], {})
        hg = ev.get("hg", {})
        sig = dict(engine="http", op=ev["req"]["op"], status=ev.get("http", {}).get("status"),
                   route=hg.get("route"), method=hg.get("method"), cid=hg.get("cid"), pid=hg.get("pid"), ct=hg.get("ct"),
                   size=hg.get("size"), backend=job.get("backend"))
        what = (f"predicate {pid} false on observed HTTP exchange: run {v['run']} ({job.get('backend')}, {job.get('kind')}) step {v['i']}: "
                f"req={json.dumps(ev['req'])} hg={json.dumps(hg)} http={json.dumps(ev.get('http'))} twin={json.dumps(ev.get('twin', {}).get('resp'))}"
                + (f" allow={json.dumps(ev.get('allow'))} state={json.dumps(ev['st'])} twin-state={json.dumps(ev['twin']['st'])}"
                   if ev.get("twin") and json.dumps(ev["st"], sort_keys=True) != json.dumps(ev["twin"]["st"], sort_keys=True) else ""))
        steps = job.get("steps", [])[: max(0, v["i"]) + 1]
        out.append(dict(sig=sig, what=what[:2500], replay=dict(engine="seq", predicate=pid, job=dict(job, steps=steps),
                                                         observed=[ev])))
    return out, notes, per_name


def http_event_stats(files):
    """distinct (route/op, method, status, outcome class) combinations seen in HTTP events"""
    combos = collections.Counter()
    classes = collections.Counter()
    nhttp = 0
    samples = []
    for f in files:
        with open(f) as fh:
            for line in fh:
                if '"http"' not in line:
                    continue
                e = json.loads(line)
                h = e.get("http")
                if not h:
                    continue
                nhttp += 1
                hg = e.get("hg")
                key = (hg["route"] if hg else e["req"]["op"], hg["method"] if hg else "-", h["status"], e["resp"]["kind"])
                combos[key] += 1
                if hg:
                    classes[(hg["route"], hg["method"], hg["cid"], hg["pid"], hg["ct"], hg["size"], hg["chunks"], hg.get("abort", False), hg["cls"])] += 1
                    if len(samples) < 4 and nhttp % 211 == 5:
                        samples.append({"grammar_request": hg, "status": h["status"], "cache_control": h["cc"]})
    return nhttp, combos, classes, samples


def engine_http(pid, tier):
    import httpplan
    t0 = time.time()
    rng = random.Random(seed() * 104729 + 7)
    binary = build_harness()
    wd = workdir("http-" + pid)
    jobs, run0 = [], 1
    stats = {}
    samples = []
    states = transitions = 0
    # ---- model tours through the HTTP handlers with a library twin (C14, C20; C16 uses the allow model)
    if pid in ("C14", "C20"):
        mname = "tiny" if (pid == "C20" or tier == "quick") else "small"
        if pid == "C14" and tier == "quick":
            mname = "small"
        edges, st, cfg = seqplan.model_edges(mname, workers=8)
        states, transitions = st["distinct"], st["generated"]
        g = seqplan.Graph(edges, "http")
        tours = seqplan.plan_tours(g, 2, rng=random.Random(rng.random()))
        for backend, frac in (("inmemory", 1.0), ("sqlite", 0.35 if tier == "quick" else 1.0)):
            ts = [t for t in tours if rng.random() < frac]
            js = seqplan.tours_to_jobs(ts, g, 2, cfg, backend, "http", run0, f"{mname}-{backend}-http-", twin=True)
            run0 += len(js)
            jobs += js
        stats["model"] = dict(name=mname, states=states, transitions=transitions, tours=len(tours), edges=len(g.edges))
        hj = seqplan.history_jobs(rng, 12 if tier == "quick" else 80, 100, run0, drivers=("http",))
        for j in hj:
            j["twin"] = True
        run0 += len(hj)
        jobs += hj
        e = edges[len(edges) // 2]
        samples.append({"model_edge": {"req": e["req"], "resp": e["resp"]}})
        if pid == "C14":
            # payload sizes around actix's default extractor limits, and a refused upload of a never-seen client
            # followed by requests whose library outcome is "no such client"
            for b in ("inmemory", "sqlite"):
                steps = [{"op": "AddVersion", "c": 1, "arg": {"sym": "nil"}, "size": 100}]
                for sz in (262143, 262144, 262145, 1000000, 2097153):
                    steps += [{"op": "AddVersion", "c": 1, "arg": {"sym": "latest"}, "size": sz}, {"op": "GetChildVersion", "c": 1, "arg": {"sym": "anc", "k": 1}},
                              {"op": "AddSnapshot", "c": 1, "arg": {"sym": "latest"}, "size": sz}, {"op": "GetSnapshot", "c": 1}]
                for hgc in ({"size": 0}, {"size": 20, "ct": "wrong"}, {"size": 20, "abort": True}):
                    hg = dict({"route": "av", "method": "POST", "cid": "valid", "pid": "valid", "ct": "right", "size": 20, "chunks": 1, "abort": False, "cls": "no"}, **hgc)
                    steps += [{"op": "Raw", "c": 3, "arg": {"sym": "nil"}, "hg": hg}, {"op": "AddSnapshot", "c": 3, "arg": {"sym": "rnd", "k": 2}},
                              {"op": "GetSnapshot", "c": 3}, {"op": "GetChildVersion", "c": 3, "arg": {"sym": "nil"}}]
                jobs.append({"id": f"c14x-{b}", "run": run0, "backend": b, "driver": "http", "cfg": {"days": 14, "versions": 100}, "nclients": 3,
                             "steps": steps, "first_free": 1, "kind": "sizes", "twin": True})
                run0 += 1
    # ---- allow-list model (C16, C20)
    if pid in ("C16", "C20"):
        edges, st, cfg = seqplan.allow_edges()
        g = seqplan.Graph(edges, "http")
        tours = seqplan.plan_tours(g, 2, rng=random.Random(rng.random()))
        if pid == "C20":
            tours = [t for t in tours if rng.random() < 0.25]
        for backend in ("inmemory", "sqlite"):
            js = seqplan.tours_to_jobs(tours, g, 2, cfg, backend, "http", run0, f"allow-{backend}-", walk=False, twin=True)
            run0 += len(js)
            jobs += js
        stats["allow_model"] = dict(states=st["distinct"], transitions=st["generated"], tours=len(tours), edges=len(g.edges))
        if pid == "C16":
            states, transitions = st["distinct"], st["generated"]
        samples.append({"allow_model_edge": {"allow": edges[-1].get("a0"), "req": edges[-1]["req"], "resp": edges[-1]["resp"]}})
    # ---- the request grammar (C15, C16 malformed ids under a list, C20)
    ncases = 0
    if pid in ("C15", "C16", "C20"):
        cases, gst = httpplan.grammar_cases(2 if pid == "C15" else 1, [0, 1, 20], [1, 3])
        ncases = len(cases)
        stats["grammar"] = dict(cases=len(cases), tlc_states=gst["distinct"])
        if pid == "C15":
            js = httpplan.grammar_jobs(rng, cases, run0, ("inmemory", "sqlite"))
            run0 += len(js)
            jobs += js
            # the upload cases once more over a real socket (Content-Length / chunked framing, broken chunk headers)
            sockcases = [c for c in cases if c["route"] in ("av", "as") and c["method"] == "POST" and c["cid"] in ("valid", "absent", "garbage")
                         and c["pid"] == "valid"]
            js = httpplan.grammar_jobs(rng, sockcases, run0, ("sqlite", "inmemory"), prefix="gs")
            for j in js:
                j["driver"] = "sock"
            run0 += len(js)
            jobs += js
            big, _ = httpplan.grammar_cases(2, [20, httpplan.LIMIT - 1, httpplan.LIMIT, httpplan.LIMIT + 1], [1, 3])
            big = [c for c in big if c["size"] > 1000 and c["cid"] == "valid" and c["pid"] == "valid" and c["ct"] == "right"
                   and c["method"] == "POST"]
            stats["grammar"]["big_cases"] = len(big)
            ncases += len(big)
            js = httpplan.big_jobs(rng, big, run0, "inmemory")
            run0 += len(js)
            jobs += js
            bigsq = big if tier == "thorough" else [c for c in big if c["size"] == httpplan.LIMIT and c["chunks"] == 1]
            js = httpplan.big_jobs(rng, bigsq, run0, "sqlite", prefix="bigsq")
            run0 += len(js)
            jobs += js
            ncases += len(bigsq)
        elif pid == "C16":
            for allow in ([], [1], [1, 2]):
                js = httpplan.grammar_jobs(rng, cases, run0, ("inmemory", "sqlite"), prefix=f"gal{len(allow)}-", allow=allow)
                run0 += len(js)
                jobs += js
        else:
            js = httpplan.grammar_jobs(rng, cases, run0, ("inmemory", "sqlite"))
            run0 += len(js)
            jobs += js
    if pid in ("C14", "C15", "C20"):
        # request headers without a protocol meaning (content negotiation, conditionals, ranges, proxies ...) on every route
        hc = cases if pid != "C14" else httpplan.grammar_cases(1, [0, 1, 20], [1, 3])[0]
        for drv in ("http", "sock"):
            js, nx = httpplan.header_jobs(rng, hc, run0, prefix="xh-" + drv, driver=drv)
            for j in js:
                j["driver"] = drv
                if pid == "C14" and drv == "http":
                    j["twin"] = True
            run0 += len(js)
            jobs += js
            ncases += nx
        stats["extra_header_cases"] = dict(header_sets=len(httpplan.EXTRA_HEADERS), requests=2 * nx)
    if pid == "C14":
        js = httpplan.outage_jobs(run0)          # storage failures: the library twin fails too, and HTTP must say 5xx
        for j in js:
            j["twin"] = True
        run0 += len(js)
        jobs += js
    if pid in ("C20", "C15"):
        js = seqplan.overlap_jobs(rng, 4 if tier == "quick" else 24, run0, prefix="ov-many", many=True)
        run0 += len(js)
        jobs += js
    if pid == "C20":
        js = httpplan.outage_jobs(run0)          # 500 responses: every storage transaction fails
        run0 += len(js)
        jobs += js
    plan = {"threads": 1, "needs_clock": True, "jobs": jobs}
    t1 = time.time()
    bigj = [j for j in jobs if j.get("kind") == "grammar-big"]
    rest = [j for j in jobs if j.get("kind") != "grammar-big"]
    summ, files = run_harness_sharded(binary, "seq", dict(plan, jobs=rest), wd, env=SOCK_ENV)
    if bigj:
        wd2 = os.path.join(wd, "big")
        os.makedirs(wd2)
        s2, f2 = run_harness_sharded(binary, "seq", dict(plan, jobs=bigj), wd2, nproc=4)   # ~1 GB per process
        summ["summaries"] += s2["summaries"]
        files += f2
    t2 = time.time()
    chunks = split_trace(files, os.path.join(wd, "chunks"))
    viols, total = judge(chunks)
    t3 = time.time()
    log(f"[http] plan {t1-t0:.1f}s harness {t2-t1:.1f}s judge {t3-t2:.1f}s events {total}")
    found, notes, per_name = http_collect(pid, viols, jobs)
    nhttp, combos, classes, hsamples = http_event_stats(chunks)
    samples += hsamples
    ndiv = sum(1 for s in summ["summaries"] if s.get("div_at", -1) >= 0)
    if ndiv:
        notes.append(f"{ndiv} tours stopped at a step where the code left the planned model edge")
    common = dict(
        samples=samples, jobs=len(jobs), events_judged=total, http_exchanges_judged=nhttp,
        distinct_route_method_status_outcome=len(combos),
        status_counts={f"{k[0]} {k[1]} {k[2]} {k[3]}": n for k, n in sorted(combos.items(), key=lambda x: str(x))[:80]},
        predicate_failures_all_properties=dict(per_name), tours_diverged=ndiv, engines=stats)
    if pid in ("C14", "C16"):
        level = "model_checking"
        coverage = dict(common, states=states, transitions=transitions,
                        traces_validated_against_impl=len(summ["summaries"]), exhaustive=True,
                        rule="every transition of the bounded model is executed through the real HTTP handlers on both backends with a "
                             "library twin on a twin storage in lock step; TLC judges every exchange")
    else:
        level = "exploration"
        nontriv = sum(1 for k in classes if k[-1] != "yes") if pid == "C15" else len(combos)
        coverage = dict(common, evaluations=max(nhttp, 1), distinct_nontrivial=nontriv, exhaustive=(pid == "C15"),
                        rule=("C15: TLC enumerates every request of the grammar (spec/SyncHttp.tla) that deviates from the well-formed "
                              "baseline of its route in at most 2 dimensions; distinct_nontrivial = distinct grammar requests whose class is "
                              "malformed or either. C20: distinct (route/op, method, status, outcome) combinations over all HTTP explorations"),
                        grammar_cases=ncases)
    assumptions = ["in-process actix service (WebServer::config + actix_web::test); syntactically invalid HTTP is answered below the application and is not claimed",
                   "one concrete spelling per grammar form",
                   "TLC strings are atomic: the harness reports whether a Cache-Control directive equals no-store"]
    rc = report(pid, tier, level, found, coverage, assumptions, t0, notes)
    shutil.rmtree(wd, ignore_errors=True)
    return rc


# ---------------------------------------------------------------- C12: urgency grid + counter

def urg_grid(rng, tier):
    U32 = 2**32 - 1
    I64 = 2**63 - 1
    AGE_MAX = 90_000_000         # chrono's representable range is about +-9.5e7 days
    tds = [0, 1, 2, 3, 7, 14, 15, 100, 2**31 - 1, 2**31, 2**32, 2**62, (2**63 + 2) // 3 - 1, (2**63 + 2) // 3, (2**63 + 2) // 3 + 1, I64]
    tvs = [0, 1, 2, 3, 7, 100, 101, 2**31 - 1, 2**31, (2**32 + 2) // 3 - 1, (2**32 + 2) // 3, (2**32 + 2) // 3 + 1, 2863311531, U32]

    def around(t, cap):
        h = t + t // 2
        c = {0, 1, t - 1, t, t + 1, h - 1, h, h + 1, 2 * t, 2 * t + 1}
        return sorted(x for x in c if 0 <= x <= cap)

    cases = []

    def add(td, tv, age, since, has=True):
        for backend in ("inmemory", "sqlite"):
            # the age is `age` whole days plus 1 h or 23 h: the snapshot was stored later in the day than the request is
            # made in at least one of the two, so whole elapsed days - not calendar dates - must be what counts
            for fh in (1, 23):
                cases.append(dict(td=str(td), tv=str(tv), age=str(age), since=str(since), has=has, backend=backend,
                                  driver="lib" if (len(cases) // 4) % 3 else "http", frac_h=fh))
    for td in tds:                                   # the age measure around each days-target
        for age in around(td, AGE_MAX) + [-1, -3, AGE_MAX]:
            add(td, 100, age, 0)
    for tv in tvs:                                   # the counter measure around each versions-target
        for since in around(tv, U32 - 1):
            add(14, tv, 0, since)
    for td in (2, 3, 14):                            # joint cases: max of the two urgencies
        for tv in (2, 3, 4):
            for age in around(td, AGE_MAX):
                for since in around(tv, U32 - 1):
                    add(td, tv, age, since)
    for td in tds:                                   # extremes of both targets together, and no snapshot
        for tv in tvs:
            add(td, tv, 0, 0)
            add(td, tv, 5, 5, has=False)
    if tier == "thorough":
        for _ in range(4000):
            td = rng.choice(tds + [rng.randint(0, 200), rng.randint(0, I64)])
            tv = rng.choice(tvs + [rng.randint(0, 200), rng.randint(0, U32)])
            age = rng.choice(around(td, AGE_MAX) + [rng.randint(-5, 400)])
            since = rng.choice(around(tv, U32 - 1) + [rng.randint(0, 400)])
            add(td, tv, age, since, has=rng.random() < 0.93)
    return cases


def engine_urg(pid, tier):
    """C12 = grid (this function) + counter/urgency on every SEQ run (engine_seq judged with the C12 predicates)."""
    t0 = time.time()
    rng = random.Random(seed() * 31 + 5)
    binary = build_harness()
    wd = workdir("urg")
    # design level: MC_Urgency
    cfg = write_cfg(f"urg_{os.getpid()}.cfg", """SPECIFICATION Spec
CONSTANTS
  MaxT = %d
  MaxM = %d
  TB = 4
INVARIANTS ImplAgrees Thresholds Monotone BigAgrees
CHECK_DEADLOCK FALSE
""" % ((5, 9) if tier == "quick" else (8, 14)))
    out = tlc("MC_Urgency.tla", cfg, workers=4, timeout=900)
    if not tlc_ok(out):
        raise ToolError("TLC reports an error on MC_Urgency:\n" + ("\n".join(tlc_error_summary(out)) or out[-2000:]))
    ust = tlc_stats(out)
    cases = urg_grid(rng, tier)
    nproc = NCPU
    shards = [cases[i::nproc] for i in range(nproc)]
    from concurrent.futures import ThreadPoolExecutor
    files = []

    def one(k):
        pf = os.path.join(wd, f"plan{k}.json")
        of = os.path.join(wd, f"urg{k}.ndjson")
        json.dump({"cases": shards[k]}, open(pf, "w"))
        r = run_harness(binary, ["urg", pf, of], timeout=1800)
        return of, r
    ncase = nskip = 0
    with ThreadPoolExecutor(max_workers=nproc) as ex:
        for of, r in ex.map(one, range(nproc)):
            files.append(of)
            ncase += r["cases"]
            nskip += r["skipped_unrepresentable"]
    # renumber runs globally so that replay files name the case
    allf = os.path.join(wd, "all.ndjson")
    evs = []
    with open(allf, "w") as w:
        for f in files:
            for line in open(f):
                e = json.loads(line)
                e["run"] = len(evs)
                evs.append(e)
                w.write(json.dumps(e) + "\n")
    viols, total = judge([allf], spec="TraceUrg.tla")
    found = []
    for v in viols:
        e = evs[v["run"]]
        ovf_v = int(e["dec"]["tv"]) * 3 > 2**32 - 1
        ovf_d = int(e["dec"]["td"]) * 3 > 2**63 - 1
        sig = dict(engine="urg", kind=e["kind"], overflow_versions=ovf_v, overflow_days=ovf_d)
        what = (f"C12 grid: targets days={e['dec']['td']} versions={e['dec']['tv']}, snapshot age={e['dec']['age']} d, versions since={e['dec']['since']}, "
                f"has_snapshot={e['has']} on {e['backend']}/{e['driver']}: add_version -> {e['kind']} urgency={e['urg']!r} committed={e['committed']} {e.get('msg','')[:120]}")
        found.append(dict(sig=sig, what=what, replay=dict(engine="urg", case=dict(e["dec"], has=e["has"], backend=e["backend"], driver=e["driver"]))))
    kinds = collections.Counter((e["kind"], e["urg"]) for e in evs)
    distinct = len({(e["dec"]["td"], e["dec"]["tv"], e["dec"]["age"], e["dec"]["since"], e["has"]) for e in evs})
    # the arithmetic facts for ALL naturals: TLAPS proof of spec/UrgencyFacts.tla (never decides the exit code:
    # a prover that is unavailable or times out is recorded, not treated as a verdict)
    proof = dict(attempted=False)
    try:
        pd = os.path.join(wd, "proof")
        os.makedirs(pd)
        shutil.copy(os.path.join(SPEC, "UrgencyFacts.tla"), pd)
        pp = sh(["timeout", "300", "tlapm", "--threads", "4", "UrgencyFacts.tla"], cwd=pd, timeout=400)
        mm = re.search(r"All (\d+) obligations? proved", pp.stdout + pp.stderr)
        proof = dict(attempted=True, obligations_proved=int(mm.group(1)) if mm else 0, all_proved=bool(mm),
                     theorems=["HighGeLow", "Monotone", "SaturationIsExact", "NegativeIsNone"], tail=(pp.stdout + pp.stderr)[-300:] if not mm else "")
    except Exception as ex_:
        proof = dict(attempted=True, all_proved=False, error=str(ex_)[:200])
    # the configuration nobody writes down: the executable started without any snapshot option (defaults 14 days / 100 versions)
    bin_facet = dict(attempted=False)
    try:
        server = build_server_bin()
        bscratch = os.path.join("/dev/shm" if os.path.isdir("/dev/shm") else wd, f"tcss-urgbin-{os.getpid()}")
        shutil.rmtree(bscratch, ignore_errors=True)
        os.makedirs(bscratch)
        c_, j_ = bin_default_job(server, bscratch, rng, 0, 1)
        wdb = os.path.join(wd, "bin")
        os.makedirs(wdb)
        sb, fb = run_harness_sharded(binary, "seq", {"threads": 1, "needs_clock": True, "jobs": [j_]}, wdb, nproc=1, env={"TCSS_SOCK_TIMEOUT": "4"})
        vb, totb = judge(split_trace(fb, os.path.join(wdb, "chunks")))
        for v in vb:
            if "C12" in v["names"] and len(found) < 40:
                ev = load_event(v["file"], v["line"])
                found.append(dict(sig=dict(engine="urgbin", op=ev["req"]["op"], urg=ev["resp"].get("urg")),
                                  what=f"C12: the real executable started WITHOUT snapshot options (defaults 14 days / 100 versions): predicate C12 false at step {v['i']}: "
                                       f"{json.dumps(ev['req'])} -> {json.dumps(ev['resp'])} day={ev.get('day')} state={json.dumps(ev['st'][ev['req']['c'] - 1]['s']) if ev['req'].get('c') else ''}",
                                  replay=dict(engine="bin", predicate="C12", config=c_)))
        bin_facet = dict(attempted=True, events_judged=totb, args=c_["args"])
        shutil.rmtree(bscratch, ignore_errors=True)
    except ToolError:
        raise
    # the counter / urgency facet on real histories: SEQ runs judged with the C12 predicates
    rc_seq = engine_seq("C12", tier, evidence=False)
    coverage = dict(states=ust["distinct"], transitions=ust["generated"], traces_validated_against_impl=ncase,
                    samples=[evs[i]["dec"] | {"urg": evs[i]["urg"], "kind": evs[i]["kind"]} for i in (0, len(evs) // 2, len(evs) - 1)],
                    grid_cases=ncase, grid_distinct=distinct, skipped_unrepresentable_age=nskip,
                    outcomes={f"{k[0]}/{k[1]}": n for k, n in kinds.items()},
                    seq_part=rc_seq["coverage"], tlaps_proof=proof, default_configuration_of_the_executable=bin_facet,
                    rule="MC_Urgency: every (targets, age, since, has) combination is an initial state (thresholds, monotonicity, BigNat vs native). "
                         "Grid: targets incl. 0, 1, odd, u32/i64 extremes x measures around each threshold; one real add_version each, "
                         "expected urgency computed by TLC with BigNat. Counter: C12_Counter/C12_Step on every step of the SEQ runs.")
    assumptions = ["snapshot age is set through the stored timestamp (public storage API), ages beyond chrono's range (~9.5e7 days) are skipped",
                   "dev profile (overflow checks on), as in the repository's test runs"]
    rc = report(pid, tier, "model_checking", found + rc_seq["found"], coverage, assumptions, t0, rc_seq["notes"])
    shutil.rmtree(wd, ignore_errors=True)
    return rc


# ---------------------------------------------------------------- lock-step engines (C09 two-run, C13 variants)

def engine_lock(pid, tier):
    t0 = time.time()
    rng = random.Random(seed() * 65537 + 3)
    binary = build_harness()
    wd = workdir("lock-" + pid)
    jobs, run0 = [], 1
    model_stats = None
    if pid == "C13":
        variants = [{"backend": "inmemory", "reopen": False}, {"backend": "sqlite", "reopen": False}, {"backend": "sqlite", "reopen": True}]
        mname = "tiny" if tier == "quick" else "small"
        edges, st, cfg = seqplan.model_edges(mname, workers=8)
        model_stats = dict(name=mname, states=st["distinct"], transitions=st["generated"])
        for driver in ("lib", "http"):
            g = seqplan.Graph(edges, driver)
            tours = seqplan.plan_tours(g, 2, rng=random.Random(rng.random()))
            js = seqplan.tours_to_jobs(tours, g, 2, cfg, "inmemory", driver, run0, f"{mname}-{driver}-var-")
            for j in js:
                j["engine"] = "variants"
                j["variants"] = variants
            run0 += len(js)
            jobs += js
        nh, ln = (40, 120) if tier == "quick" else (300, 200)
        hj = seqplan.history_jobs(rng, nh, ln, run0, backends=("inmemory",))
        for j in hj:
            j["engine"] = "variants"
            j["variants"] = variants
    else:
        nh, ln = (60, 90) if tier == "quick" else (400, 160)
        hj = seqplan.history_jobs(rng, nh, ln, run0)
        # ... and with other clients' uploads IN FLIGHT while a client is served (real sockets, interleaved pieces)
        hj += seqplan.overlap_jobs(rng, 8 if tier == "quick" else 48, run0 + len(hj))
        for j in hj:
            j["engine"] = "ni"
            if j["nclients"] < 3:
                j["nclients"] = 3
    run0 += len(hj)
    jobs += hj
    plan = {"threads": 1, "needs_clock": True, "jobs": jobs}
    t1 = time.time()
    summ, files = run_harness_sharded(binary, "seq", plan, wd, env=SOCK_ENV)
    t2 = time.time()
    viols, total = judge(files, spec="TraceLockstep.tla")
    t3 = time.time()
    log(f"[lock] plan {t1-t0:.1f}s harness {t2-t1:.1f}s judge {t3-t2:.1f}s pairs {total}")
    jobs_by_run = {j["run"]: j for j in jobs}
    found = []
    for v in viols:
        if pid not in v["names"]:
            continue
        e = load_event(v["file"], v["line"])
        job = jobs_by_run.get(v["run"], {})
        diff = {k: (e["a"].get(k), e["b"].get(k)) for k in set(e["a"]) | set(e["b"]) if e["a"].get(k) != e["b"].get(k)} if isinstance(e["a"], dict) else {}
        sig = dict(engine="lock", prop=pid, op=e.get("op") or (e["a"].get("req", {}) or {}).get("op"), backend=job.get("backend"), driver=job.get("driver"),
                   fields=sorted(diff.keys()))
        what = (f"{pid} lock-step pair differs at run {v['run']} step {v['i']} ({job.get('backend')}/{job.get('driver')}, "
                f"{'variants ' + json.dumps([e.get('va'), e.get('vb')]) if pid == 'C13' else 'client ' + str(e.get('client')) + ' alone vs with others'}): "
                + json.dumps(diff)[:900])
        steps = job.get("steps", [])[: max(0, v["i"]) + 1]
        found.append(dict(sig=sig, what=what, replay=dict(engine="seq", predicate=pid, job=dict(job, steps=steps))))
    samples = []
    for f in files[:1]:
        with open(f) as fh:
            for k, line in enumerate(fh):
                if k in (3, 40):
                    e = json.loads(line)
                    samples.append({"pair": {"a": e["a"], "b": e["b"]}, "step": e["i"]})
    if hj:
        samples.append({"history_prefix": hj[0]["steps"][:6]})
    seq_part = None
    notes = []
    if pid == "C09":
        r = engine_seq("C09", tier, evidence=False)      # the step facet: other clients' state untouched, nothing foreign revealed
        found += r["found"]
        notes = r["notes"]
        seq_part = r["coverage"]
        st = dict(distinct=seq_part["states"], generated=seq_part["transitions"])
    else:
        st = dict(distinct=model_stats["states"], generated=model_stats["transitions"])
    coverage = dict(states=st["distinct"], transitions=st["generated"], traces_validated_against_impl=len(summ["summaries"]),
                    samples=samples, pairs_judged=total, jobs=len(jobs), histories=len(hj), model=model_stats, seq_part=seq_part,
                    rule=("C13: every tour of the bounded model and seeded histories run on in-memory, SQLite and SQLite-with-reopen; canonical events "
                          "paired and compared by TLC. C09: each multi-client history is projected onto each client and re-run alone; the client's "
                          "responses and own state are paired and compared by TLC; plus the C09 step predicate on all SEQ runs."))
    assumptions = ["version ids are compared after canonical renaming (first appearance / acceptance index), snapshot times at day granularity",
                   "payload equality through exact byte match (tokens / FNV-64 of the returned bytes)"]
    rc = report(pid, tier, "model_checking", found, coverage, assumptions, t0, notes)
    shutil.rmtree(wd, ignore_errors=True)
    return rc


# ---------------------------------------------------------------- CONC engine (C03; schedule facets of C11, C01, C02, C07)

CONC_SHAPES_HTTP = [("AddVersion", "latest"), ("AddVersion", "nil"), ("AddVersion", "old"), ("AddVersion", "rnd"), ("GetChildVersion", "latest"),
                    ("GetChildVersion", "nil"), ("GetChildVersion", "mid"), ("AddSnapshot", "latest"), ("AddSnapshot", "mid"),
                    ("GetSnapshot", "nil")]
CONC_SEEDS = {
    "Seed0": [],
    "Seed1": [{"op": "NewClient", "c": 1}],
    "Seed2": [{"op": "AddVersion", "arg": {"sym": "nil"}}],
    "Seed2b": [{"op": "AddVersion", "arg": {"sym": "nil"}}, {"op": "AddVersion", "arg": {"sym": "latest"}}],
    "Seed3": [{"op": "AddVersion", "arg": {"sym": "nil"}}, {"op": "AddVersion", "arg": {"sym": "latest"}}, {"op": "AddSnapshot", "arg": {"sym": "first"}}],
    "Seed4": [{"op": "AddVersion", "arg": {"abs": 90}}, {"op": "AddVersion", "arg": {"sym": "latest"}}, {"op": "AddVersion", "arg": {"sym": "latest"}},
              {"op": "AddSnapshot", "arg": {"sym": "anc", "k": 1}}, {"op": "AddVersion", "arg": {"sym": "latest"}}],
    "Seed6": [{"op": "AddVersion", "arg": {"sym": "nil"}}] + [{"op": "AddVersion", "arg": {"sym": "latest"}}] * 5,
}
# the same scripts as TLA+ sequences (MC_Conc.tla) are identified by their length and first parent
def seed_name_of(tla_seed):
    n = len(tla_seed)
    if n == 0:
        return "Seed0"
    if n == 1:
        return "Seed1" if tla_seed[0]["op"] == "NewClient" else "Seed2"
    return {2: "Seed2b", 3: "Seed3", 5: "Seed4", 6: "Seed6"}[n]


def conc_cfg_text(backend, checks, nreq, shapes, seeds, faults=0, crash=False, invariants="MutualExclusion Inv_C03", emit=True):
    return f"""SPECIFICATION Spec
CONSTANTS
  Backend = "{backend}"
  CreateChecks = {"TRUE" if checks else "FALSE"}
  NReq = {nreq}
  ReqChoices <- {shapes}
  Seeds <- {seeds}
  FaultBudget = {faults}
  CrashOn = {"TRUE" if crash else "FALSE"}
  SnapDays = 14
  SnapVersions = 100
INVARIANTS {invariants} {"EmitDone" if emit else ""}
CHECK_DEADLOCK FALSE
"""


def conc_model(backend, checks, nreq, shapes, seeds, faults=0, crash=False, invariants="MutualExclusion Inv_C03", timeout=900, workers=8):
    cfg = write_cfg(f"conc_{os.getpid()}_{backend}_{shapes}_{seeds}_{nreq}_{faults}_{int(crash)}.cfg",
                    conc_cfg_text(backend, checks, nreq, shapes, seeds, faults, crash, invariants))
    out = tlc("MC_Conc.tla", cfg, workers=workers, timeout=timeout)
    scheds = [parse_tla_string_tuple(l, "SCHED") for l in out.splitlines() if l.startswith('<<"SCHED"')]
    return out, scheds, tlc_stats(out)


def normalize_sched(sched, backend):
    """The model lets a thread sit between calling txn() and getting the lock while the lock is free (a
    preemption the gates cannot force): a "txn" entry is kept only where another request holds the lock
    (the thread really blocks); otherwise it is issued together with the request's "acquired"."""
    out, holder, pending = [], None, set()
    for r, call in sched:
        if call == "txn":
            if holder is not None and holder != r:
                out.append([r, "txn"])
            else:
                pending.add(r)
        elif call == "acquired":
            if r in pending:
                pending.discard(r)
                out.append([r, "txn"])
            out.append([r, "acquired"])
            holder = r
        else:
            out.append([r, call])
            if holder == r and (call == "release" or (call == "commit" and backend == "sqlite")):
                holder = None
    return out


def sched_to_job(s, backend, instances, jid):
    reqs = [{"op": q["op"], "argk": sh["argk"], "lvl": q["lvl"]} for q, sh in zip(s["reqs"], s["shapes"])]
    return {"id": jid, "mode": "model", "backend": backend, "instances": instances, "cfg": {"days": 14, "versions": 100},
            "seedname": seed_name_of(s["seed"]), "seed": CONC_SEEDS[seed_name_of(s["seed"])], "reqs": reqs, "sched": normalize_sched([[e[0], e[1]] for e in s["sched"]], backend),
            "model_resps": [r["kind"] for r in s["resps"]]}


def run_conc_jobs(binary, jobs, wd, nproc=None):
    from concurrent.futures import ThreadPoolExecutor
    nproc = nproc or NCPU
    shards = [[] for _ in range(nproc)]
    load = [0] * nproc
    for j in sorted(jobs, key=lambda j: -j.get("max_rounds", j.get("rounds", 1))):
        k = load.index(min(load))
        shards[k].append(j)
        load[k] += j.get("max_rounds", j.get("rounds", 1)) * (2 if j["backend"] == "sqlite" else 1)
    run0 = 1
    todo = []
    for k, sj in enumerate(shards):
        if not sj:
            continue
        pf = os.path.join(wd, f"cplan{k}.json")
        json.dump({"run0": run0, "jobs": sj}, open(pf, "w"))
        todo.append((pf, os.path.join(wd, f"rounds{k}.ndjson")))
        run0 += sum(j.get("max_rounds", j.get("rounds", 1)) for j in sj) + 10
    tot = 0
    perjob = []
    with ThreadPoolExecutor(max_workers=nproc) as ex:
        for r in ex.map(lambda a: run_harness(binary, ["conc", a[0], a[1]], timeout=3000), todo):
            tot += r["rounds"]
            perjob += r["jobs"]
    return [t[1] for t in todo], tot, perjob


def storage_conformance(files, jobs, wd):
    """Replay the recorded storage calls of every fault-free round as actions of spec/SyncStorage.tla (conformance style,
    spec/TraceStorage.tla).  Returns (stats, notes); a round the model cannot follow is a divergence (NOTE), not a verdict."""
    jb = {j["id"]: j for j in jobs}
    groups = collections.defaultdict(list)
    nr = 0
    for f in files:
        for line in open(f):
            e = json.loads(line)
            j = jb.get(e.get("job"))
            if not j or e.get("faulted") or e.get("raw") or not j.get("seedname") or any("argk" not in q for q in j["reqs"]) or e.get("timeouts"):
                continue            # (raw rounds have no storage-call log: nothing stands between the server and its backend there)
            key = (e["backend"], len(e["reqs"]))
            g = groups[key]
            g.append({"t": "start", "run": e["run"], "seedname": j["seedname"], "shapes": [{"op": q["op"], "argk": q["argk"], "lvl": q["lvl"]} for q in j["reqs"]]})
            for r, call in e["log"]:
                g.append({"t": "call", "run": e["run"], "r": r, "call": call})
            g.append({"t": "end", "run": e["run"], "kinds": [x["kind"] for x in e["resps"]], "final": e["final"]})
            nr += 1
    stats = dict(rounds_replayed=nr, not_conforming=0, groups=[])
    notes = []
    from concurrent.futures import ThreadPoolExecutor

    def one(item):
        (backend, nreq), evs = item
        tf = os.path.join(wd, f"storage-{backend}-{nreq}.ndjson")
        with open(tf, "w") as w:
            for e in evs:
                w.write(json.dumps(e) + "\n")
        cfg = write_cfg(f"tstorage_{os.getpid()}_{backend}_{nreq}.cfg", f"""SPECIFICATION TSpec
CONSTANTS
  Backend = "{backend}"
  CreateChecks = TRUE
  NReq = {nreq}
  ReqChoices <- OneShape
  Seeds <- OneSeed
  FaultBudget = 0
  CrashOn = FALSE
  SnapDays = 14
  SnapVersions = 100
INVARIANTS Track
POSTCONDITION Accepted
CHECK_DEADLOCK FALSE
""")
        out = tlc("TraceStorage.tla", cfg, workers=1, timeout=1800, env={"TRACE": tf}, heap="3g", java_opts="-Xss1g", gc="-XX:+UseSerialGC")
        m = re.search(r'<<"STORAGERESULT", (\d+), (\d+)>>', out)
        bad = [l for l in out.splitlines() if l.startswith('<<"NOCONF"')]
        if not m or int(m.group(1)) != int(m.group(2)) + 1:
            raise ToolError(f"TraceStorage did not consume {tf}: " + out[-1500:])
        return (backend, nreq, len(evs), bad)
    with ThreadPoolExecutor(max_workers=4) as ex:
        for backend, nreq, n, bad in ex.map(one, list(groups.items())):
            stats["groups"].append(dict(backend=backend, requests=nreq, events=n, not_conforming=len(bad)))
            stats["not_conforming"] += len(bad)
            notes += [f"storage-model conformance ({backend}, {nreq} requests): " + b[:300] for b in bad[:3]]
    return stats, notes


def conc_collect(pid, viols, extra_sig=None, jobs=None):
    found = []
    jobs_by_id = {j["id"]: j for j in (jobs or [])}
    for v in viols:
        if pid not in v["names"] or len(found) >= 40:
            continue
        e = load_event(v["file"], v["line"])
        ops = sorted(q["op"] for q in e["reqs"])
        sig = dict(engine="conc", ops=ops, lvls=sorted(set(q["lvl"] for q in e["reqs"])), seed_client_exists=e["seed"]["e"],
                   backend=e["backend"], resp_kinds=sorted(r["kind"] for r in e["resps"]))
        what = (f"{pid} false on a recorded round ({e['backend']}/{e['instances']}, mode {e['mode']}): requests "
                f"{[(q['op'], q['arg'], q['lvl']) for q in e['reqs']]} on seed latest={e['seed']['l']} exists={e['seed']['e']} -> responses "
                f"{[(r['kind'], r['vid'], r.get('msg', '')[:60]) for r in e['resps']]}; final latest={e['final']['l']} versions={[(x['vid'], x['parent']) for x in e['final']['v']]}; "
                f"schedule {e['info']}")
        found.append(dict(sig=sig, what=what[:1800], replay=dict(engine="conc", predicate=pid, round=e, job=jobs_by_id.get(e.get("job")))))
    return found



def upload_model(wd, tier):
    """spec/SyncUpload.tla: TLC on the design the code has (all three invariants) and on the two negative controls (the invariant
    each of them must break), and the TLAPS proof of the invariants for any number of requests / pieces / workers (recorded, never
    deciding the exit code)."""
    res = {}
    for name, early, shared, expect in (("as-built", "FALSE", "FALSE", None), ("transaction-before-body", "TRUE", "FALSE", "NoHolding"),
                                        ("per-thread-buffer", "FALSE", "TRUE", "Integrity")):
        cfg = write_cfg(f"upload_{os.getpid()}_{name}.cfg", f"""SPECIFICATION Spec
CONSTANTS
  Reqs <- MCReqs
  MaxPieces = {3 if tier == "quick" else 4}
  Workers = 2
  EarlyTxn = {early}
  SharedBuffer = {shared}
INVARIANTS TypeOK Integrity Sequential NoHolding
CONSTRAINT ProbeBound
CHECK_DEADLOCK FALSE
""")
        out = tlc("MC_Upload.tla", cfg, workers=4, timeout=900)
        st = tlc_stats(out)
        viol = re.search(r"Invariant (\w+) is violated", out)
        if expect is None:
            if not tlc_ok(out):
                raise ToolError("TLC reports an error on the upload-layer model:\n" + ("\n".join(tlc_error_summary(out)) or out[-2000:]))
            res[name] = dict(states=st["distinct"], transitions=st["generated"], invariants_hold=True)
        else:
            if not viol or viol.group(1) != expect:
                raise ToolError(f"negative control {name} of the upload-layer model did not break {expect}: " + out[-1500:])
            res[name] = dict(breaks=expect)
    proof = dict(attempted=False)
    try:
        pd = os.path.join(wd, "proof-upload")
        os.makedirs(pd, exist_ok=True)
        for f in ("UploadFacts.tla", "SyncUpload.tla"):
            shutil.copy(os.path.join(SPEC, f), pd)
        pp = sh(["timeout", "600", "tlapm", "--threads", "8", "UploadFacts.tla"], cwd=pd, timeout=700)
        mm = re.search(r"All (\d+) obligations? proved", pp.stdout + pp.stderr)
        proof = dict(attempted=True, obligations_proved=int(mm.group(1)) if mm else 0, all_proved=bool(mm),
                     theorem="Safety == Spec => [](NoHolding /\\ Integrity /\\ Sequential), any Reqs / MaxPieces / Workers, EarlyTxn = SharedBuffer = FALSE",
                     tail=(pp.stdout + pp.stderr)[-300:] if not mm else "")
    except Exception as ex_:
        proof = dict(attempted=True, all_proved=False, error=str(ex_)[:200])
    res["tlaps_proof"] = proof
    return res


def upload_conformance(files, wd, tag="upload"):
    """Replay what the "Overlap" steps did on the sockets (begin / piece / probe / apply, recorded by harness/src/seq.rs) as the
    ACTIONS of spec/SyncUpload.tla (spec/TraceUpload.tla).  Returns (stats, bad) where bad = [(kind, file, lineno, event)]:
    kind "apply" = the stored bytes were not the upload's bytes / no answer (Integrity), "probe" = a request was not served
    while an upload was in flight (NoHolding)."""
    tf = os.path.join(wd, f"{tag}-phases.ndjson")
    index = []           # flattened line -> (file, lineno)
    ngroups = 0
    with open(tf, "w") as w:
        for f in files:
            with open(f) as fh:
                for ln, line in enumerate(fh, 1):
                    if '"overlap"' not in line:
                        continue
                    e = json.loads(line)
                    ov = e.get("overlap")
                    if not ov:
                        continue
                    ngroups += 1
                    base = {"run": e["run"], "i": e["i"]}
                    w.write(json.dumps(dict(base, t="start", r=0)) + "\n")
                    index.append((f, ln))
                    for ph in ov["phases"]:
                        w.write(json.dumps(dict(base, **ph)) + "\n")
                        index.append((f, ln))
    if ngroups == 0:
        return dict(groups=0, lines=0, not_conforming=0), []
    out = tlc("TraceUpload.tla", os.path.join(SPEC, "TraceUpload.cfg"), workers=1, timeout=1800, env={"TRACE": tf}, heap="3g", java_opts="-Xss1g", gc="-XX:+UseSerialGC")
    m = re.search(r'<<"UPLOADRESULT", (\d+), (\d+)>>', out)
    if not m or int(m.group(1)) != int(m.group(2)) + 1 or '<<"TOOL"' in out:
        raise ToolError(f"TraceUpload did not consume {tf}: " + out[-1500:])
    if "Invariant" in out and "is violated" in out:
        raise ToolError("an invariant of SyncUpload is violated along a replayed behaviour (the model itself is wrong): " + out[-1500:])
    bad = []
    for l in out.splitlines():
        mm = re.match(r'<<"NOCONF", (\d+), (-?\d+), (-?\d+), "(\w+)">>', l)
        if mm:
            f, ln = index[int(mm.group(1)) - 1]
            bad.append((mm.group(4), f, ln, load_event(f, ln)))
    return dict(groups=ngroups, lines=len(index), not_conforming=len(bad)), bad


def engine_conc(pid, tier, evidence=True, focus=None):
    only_av = focus is not None
    t0 = time.time()
    rng = random.Random(seed() * 2654435761 % (2**31) + 11)
    binary = build_harness()
    wd = workdir("conc-" + pid)
    # ---- (1) the design: TLC on SyncStorage (CreateChecks = TRUE: the create transaction re-reads the client)
    model_runs = []
    scheds_all = []
    states = transitions = 0
    mconfigs = [("sqlite", 2, "ShapesNew", "SeedsNew"), ("inmemory", 2, "ShapesAV", "SeedsSmall")] if tier == "quick" else \
               [("sqlite", 2, "ShapesNew", "SeedsNew"), ("inmemory", 2, "ShapesNew", "SeedsNew"), ("sqlite", 2, "ShapesHttp", "SeedsAll"),
                ("inmemory", 2, "ShapesHttp", "SeedsAll"), ("sqlite", 2, "ShapesLib", "SeedsSmall"), ("sqlite", 3, "ShapesAV", "SeedsSmall")]
    if only_av:
        mconfigs = mconfigs[:1]
    for backend, nreq, shapes, seeds in mconfigs:
        if nreq >= 3:
            # three overlapping requests: the state space no longer finishes (hours); TLC's simulation mode checks the invariants
            # on 160 000 random behaviours of the same model instead (no schedules are taken from it)
            cfg3 = write_cfg(f"conc3_{os.getpid()}_{backend}.cfg", conc_cfg_text(backend, True, nreq, shapes, seeds, emit=False))
            out = tlc("MC_Conc.tla", cfg3, workers=8, timeout=1800, extra=["-simulate", "num=20000", "-depth", "200"])
            m3 = re.search(r"Progress: (\d+) states checked, (\d+) traces generated[^\n]*\nThe number of states generated", out)
            if "Error" in out or "is violated" in out or not m3:
                raise ToolError(f"TLC (simulation) reports an error on the concurrency model ({backend},{shapes},{seeds},{nreq} requests):\n" + ("\n".join(tlc_error_summary(out)) or out[-3000:]))
            model_runs.append(dict(backend=backend, nreq=nreq, shapes=shapes, seeds=seeds, mode="simulation", states_checked=int(m3.group(1)), behaviours=int(m3.group(2))))
            continue
        out, scheds, st = conc_model(backend, True, nreq, shapes, seeds, timeout=900 if tier == "quick" else 3600)
        if not tlc_ok(out):
            raise ToolError(f"TLC reports an error on the concurrency model ({backend},{shapes},{seeds}):\n" + ("\n".join(tlc_error_summary(out)) or out[-3000:]))
        model_runs.append(dict(backend=backend, nreq=nreq, shapes=shapes, seeds=seeds, states=st["distinct"], transitions=st["generated"], schedules=len(scheds)))
        states += st["distinct"]
        transitions += st["generated"]
        k = (150 if tier == "quick" else 1500) if not only_av else 40
        for s in rng.sample(scheds, min(k, len(scheds))):
            scheds_all.append((backend, s))
    if tier == "thorough" and focus is None:
        # every request terminates and the lock is always released again (weak fairness, no state constraint)
        for backend in ("sqlite", "inmemory"):
            cfg = write_cfg(f"conc_live_{os.getpid()}_{backend}.cfg", conc_cfg_text(backend, True, 2, "ShapesAV", "SeedsNew", faults=0,
                            invariants="MutualExclusion", emit=False).replace("SPECIFICATION Spec", "SPECIFICATION FairSpec")
                            .replace("CHECK_DEADLOCK FALSE", "PROPERTIES Live_Done Live_LockFree\nCHECK_DEADLOCK FALSE"))
            out = tlc("MC_Conc.tla", cfg, workers=8, timeout=3600)
            if not tlc_ok(out):
                raise ToolError("TLC reports an error on the liveness model:\n" + ("\n".join(tlc_error_summary(out)) or out[-3000:]))
            st = tlc_stats(out)
            model_runs.append(dict(backend=backend, liveness=["Live_Done", "Live_LockFree"], states=st["distinct"], transitions=st["generated"]))
    jobs = []
    for i, (backend, s) in enumerate(scheds_all):
        inst = "multi" if (backend == "sqlite" and i % 2) else "shared"
        jobs.append(sched_to_job(s, backend, inst, f"m{i}"))
    # ---- (2) bounded-exhaustive exploration at gate granularity, not derived from the model
    shapes = CONC_SHAPES_HTTP
    pairs = [(a, b) for i, a in enumerate(shapes) for b in shapes[i:]]
    if focus is not None:
        pairs = [(a, b) for a, b in pairs if tuple(sorted((a[0], b[0]))) in focus]
    seeds = ["Seed0", "Seed2", "Seed2b", "Seed3"] if tier == "quick" else ["Seed0", "Seed1", "Seed2", "Seed2b", "Seed3", "Seed4", "Seed6"]
    targets = [("inmemory", "shared"), ("sqlite", "shared"), ("sqlite", "multi")]
    maxr = 60 if tier == "quick" else 400
    k = 0
    for a, b in pairs:
        for sd in seeds:
            for backend, inst in targets:
                if tier == "quick" and not only_av and (k % 3) != (zlib.crc32(repr((a, b, sd)).encode()) % 3) and not (a[0] == b[0] and a[0] in ("AddVersion", "AddSnapshot")):
                    k += 1
                    continue            # quick: each (pair, seed) on one of the three storage configurations; AddVersion pairs on all
                k += 1
                lvl = "lib" if (k % 5 == 0 and sd != "Seed0") else "http"
                jobs.append({"id": f"d{k}", "mode": "dfs", "backend": backend, "instances": inst, "cfg": {"days": 14, "versions": 100},
                             "seedname": sd, "seed": CONC_SEEDS[sd], "reqs": [{"op": a[0], "argk": a[1], "lvl": lvl}, {"op": b[0], "argk": b[1], "lvl": lvl}],
                             "max_rounds": maxr if not (a[0] == b[0] == "AddVersion" and sd == "Seed0") else max(maxr, 250)})
    # ---- (3) seeded random schedules for triples
    ntr = 0 if only_av else (40 if tier == "quick" else 400)
    for i in range(ntr):
        tr = [rng.choice(shapes) for _ in range(3)]
        backend, inst = rng.choice(targets)
        sdn = rng.choice(seeds)
        jobs.append({"id": f"r{i}", "mode": "random", "backend": backend, "instances": inst, "cfg": {"days": 14, "versions": 100},
                     "seedname": sdn, "seed": CONC_SEEDS[sdn], "reqs": [{"op": o, "argk": a, "lvl": "http"} for o, a in tr],
                     "rounds": 6, "rseed": rng.randint(1, 2**31)})
    # ---- (4) stress without the harness in between: every server owns its SqliteStorage object itself (whatever the backend
    # type overrides beyond `txn` is in force, as in the executable), four requests start together, the OS schedules them
    STRESS = [("Seed3", [("GetSnapshot", "nil"), ("AddSnapshot", "latest"), ("AddVersion", "latest"), ("GetSnapshot", "nil")]),
              ("Seed3", [("AddSnapshot", "latest"), ("AddSnapshot", "mid"), ("GetSnapshot", "nil"), ("GetChildVersion", "latest")]),
              ("Seed2b", [("AddVersion", "latest"), ("AddVersion", "latest"), ("GetChildVersion", "latest"), ("AddSnapshot", "latest")]),
              ("Seed0", [("AddVersion", "nil"), ("AddVersion", "rnd"), ("GetChildVersion", "nil"), ("GetSnapshot", "nil")]),
              ("Seed6", [("AddSnapshot", "latest"), ("GetSnapshot", "nil"), ("GetSnapshot", "nil"), ("AddSnapshot", "mid")])]
    nstress = 0
    for i, (sdn, reqs4) in enumerate(STRESS):
        ops4 = tuple(sorted(set(o for o, _ in reqs4)))
        if focus is not None and not any(tuple(sorted((a, b))) in focus for a in ops4 for b in ops4):
            continue
        for rep in range(1 if tier == "quick" else 6):
            for lvl in ("http", "lib"):
                if lvl == "lib" and sdn == "Seed0":
                    continue
                for inst in ("multi", "shared"):     # one server object per request (separate processes) / one for all (the workers of one process)
                    jobs.append({"id": f"s{i}-{lvl}-{rep}-{inst}", "mode": "random", "raw": True, "backend": "sqlite", "instances": inst, "cfg": {"days": 14, "versions": 100},
                                 "seedname": sdn, "seed": CONC_SEEDS[sdn], "reqs": [{"op": o, "argk": a, "lvl": lvl} for o, a in reqs4],
                                 "rounds": 40 if focus is not None else 90, "max_rounds": 100, "rseed": rng.randint(1, 2**31)})
                    nstress += 1
    t1 = time.time()
    files, nrounds, perjob = run_conc_jobs(binary, jobs, wd)
    t2 = time.time()
    viols, total = judge(files, spec="TraceConc.tla")
    t3 = time.time()
    log(f"[conc] tlc {t1-t0:.1f}s harness {t2-t1:.1f}s judge {t3-t2:.1f}s rounds {total}")
    found = conc_collect(pid, viols, jobs=jobs)
    sconf, snotes = (storage_conformance(files, jobs, wd) if focus is None else (None, []))
    two_inst = None
    if focus is None and pid == "C03":
        # "through several server instances": requests one after the other, alternating between two server
        # objects on the same data (a second SqliteStorage object on the directory); the one-at-a-time order
        # is the real order, so every sequential predicate must hold
        hj = seqplan.history_jobs(rng, 16 if tier == "quick" else 120, 80, 1)
        for j in hj:
            j["instances"] = 2
        # requests that overlap while their BODIES arrive (real sockets, one in-process HttpServer, pieces interleaved): the order
        # in which the bodies complete is the one-at-a-time order every sequential predicate must hold for
        hj += seqplan.overlap_jobs(rng, 6 if tier == "quick" else 48, 1 + len(hj), many=True)
        wd2 = os.path.join(wd, "twoinst")
        os.makedirs(wd2)
        summ2, f2 = run_harness_sharded(binary, "seq", {"threads": 1, "needs_clock": True, "jobs": hj}, wd2, env=SOCK_ENV)
        v2, tot2 = judge(split_trace(f2, os.path.join(wd2, "chunks")))
        jb = {j["run"]: j for j in hj}
        for v in v2:
            names_ = [x for x in v["names"] if x not in NOTE_NAMES]
            if not names_ or len(found) >= 40:
                continue
            ev = load_event(v["file"], v["line"])
            job = jb.get(v["run"], {})
            found.append(dict(sig=dict(engine="seq2i", names=sorted(names_), op=ev["req"]["op"], resp=ev["resp"]["kind"], backend=job.get("backend")),
                              what=f"C03 ({'uploads overlapping while their bodies arrive, judged in their order of completion' if job.get('kind') == 'overlap' else 'two server instances on one data directory, requests one after the other'}): predicate(s) {names_} false at step {v['i']} "
                                   f"({job.get('backend')}/{job.get('driver')}): {json.dumps(ev['req'])} -> {json.dumps(ev['resp'])}",
                              replay=dict(engine="seq", predicate=names_[0], job=dict(job, steps=job.get("steps", [])[: max(0, v["i"]) + 1]))))
        two_inst = dict(histories=len(hj), events_judged=tot2)
    if not evidence:
        shutil.rmtree(wd, ignore_errors=True)
        return dict(found=found, rounds=total, model_runs=model_runs)
    samples = []
    for f in files[:2]:
        with open(f) as fh:
            for kk, line in enumerate(fh):
                if kk == 2:
                    e = json.loads(line)
                    samples.append({"round": {"reqs": e["reqs"], "resps": [r["kind"] for r in e["resps"]], "log": e["log"][:14], "mode": e["mode"]}})
    if scheds_all:
        samples.append({"model_schedule": scheds_all[0][1]["sched"][:16], "model_resps": [r["kind"] for r in scheds_all[0][1]["resps"]]})
    incomplete = [j["id"] for j in perjob if j.get("complete") is False]
    per_name = collections.Counter(n for v in viols for n in v["names"])
    coverage = dict(states=states, transitions=transitions, traces_validated_against_impl=total, samples=samples,
                    model_runs=model_runs, dfs_jobs=sum(1 for j in jobs if j["mode"] == "dfs"), model_schedule_rounds=len(scheds_all),
                    random_jobs=ntr, dfs_jobs_hitting_round_cap=len(incomplete), predicate_failures_all_properties=dict(per_name),
                    two_instance_sequential=two_inst, storage_model_conformance=sconf,
                    rule="TLC explores every interleaving of 2-3 request programs at storage-call granularity (SyncStorage, both backend semantics) and "
                         "checks linearizability; a sample of its terminal schedules, a bounded-exhaustive gate-level exploration of all request pairs "
                         "and seeded random triples are executed on the real code under the controlled scheduler; TLC judges each recorded round "
                         "(mutual exclusion in the call log, no server error, linearizable, chain intact)")
    assumptions = ["requests run on one OS thread each inside one process; two SqliteStorage objects on one directory stand for several server instances",
                   "a request blocked in txn() is recognised by a grace period (8/25 ms); timing never decides a verdict",
                   "an HTTP AddVersion for an unknown client may linearize as two units (create the empty client, then add)"]
    rc = report(pid, tier, "model_checking", found, coverage, assumptions, t0, snotes)
    shutil.rmtree(wd, ignore_errors=True)
    return rc


# ---------------------------------------------------------------- FAULT engine (C05)

ARGK_SYM = {"nil": {"sym": "nil"}, "latest": {"sym": "latest"}, "old": {"sym": "first"}, "mid": {"sym": "anc", "k": 1}, "rnd": {"sym": "rnd", "k": 0}}

FAULT_HISTORIES = [
    # (op, argk) sequences; request i is faulted on the state left by requests 0..i-1
    [("AddVersion", "nil"), ("AddVersion", "latest"), ("AddSnapshot", "latest"), ("AddVersion", "latest"), ("GetChildVersion", "mid"),
     ("AddVersion", "old"), ("GetSnapshot", "nil"), ("AddSnapshot", "latest"), ("AddVersion", "latest")],
    [("GetChildVersion", "nil"), ("AddSnapshot", "rnd"), ("AddVersion", "rnd"), ("AddVersion", "latest"), ("AddVersion", "latest"),
     ("AddSnapshot", "mid"), ("AddSnapshot", "old"), ("GetSnapshot", "nil"), ("GetChildVersion", "latest"), ("AddVersion", "nil")],
]
FOLLOW = [{"op": "GetChildVersion", "arg": {"sym": "anc", "k": 1}}, {"op": "AddVersion", "arg": {"sym": "latest"}}, {"op": "GetSnapshot"}]


def engine_fault(pid, tier):
    t0 = time.time()
    rng = random.Random(seed() * 48271 + 1)
    binary = build_harness()
    wd = workdir("fault")
    # ---- design level: one request, up to 2 injected faults, every storage call, both lvls
    model_runs = []
    states = transitions = 0
    for backend, shapes in (("sqlite", "ShapesHttp"), ("sqlite", "ShapesLib")):
        cfg = write_cfg(f"fault_{os.getpid()}_{shapes}.cfg", conc_cfg_text(backend, True, 1, shapes, "SeedsAll", faults=(1 if tier == "quick" else 2),
                                                                         invariants="MutualExclusion Inv_C05", emit=False))
        out = tlc("MC_Conc.tla", cfg, workers=4, timeout=900 if tier == "quick" else 3600)
        if not tlc_ok(out):
            raise ToolError("TLC reports an error on the fault model:\n" + ("\n".join(tlc_error_summary(out)) or out[-3000:]))
        st = tlc_stats(out)
        model_runs.append(dict(backend=backend, shapes=shapes, states=st["distinct"], transitions=st["generated"]))
        states += st["distinct"]
        transitions += st["generated"]
    if tier == "thorough":
        cfg = write_cfg(f"fault_live_{os.getpid()}.cfg", conc_cfg_text("sqlite", True, 2, "ShapesAV", "SeedsNew", faults=1,
                                                                       invariants="MutualExclusion", emit=False).replace("SPECIFICATION Spec", "SPECIFICATION FairSpec")
                        .replace("CHECK_DEADLOCK FALSE", "PROPERTIES Live_Done Live_LockFree\nCHECK_DEADLOCK FALSE"))
        out = tlc("MC_Conc.tla", cfg, workers=8, timeout=3600)
        if not tlc_ok(out):
            raise ToolError("TLC reports an error on the fault liveness model:\n" + ("\n".join(tlc_error_summary(out)) or out[-3000:]))
        st = tlc_stats(out)
        model_runs.append(dict(liveness=True, states=st["distinct"], transitions=st["generated"]))
    # ---- the code: every storage call and every I/O call of every request of the histories fails
    jobs = []
    hists = FAULT_HISTORIES if tier == "thorough" else FAULT_HISTORIES[:2]
    for h, hist in enumerate(hists):
        for lvl in ("http", "lib"):
            if tier == "quick" and lvl == "lib" and h == 1:
                continue
            for i, (op, argk) in enumerate(hist):
                if lvl == "lib" and i == 0 and op == "AddVersion":
                    pass
                seedsteps = [{"op": o, "arg": ARGK_SYM[a]} for o, a in hist[:i]]
                jobs.append({"id": f"f{h}-{lvl}-{i}", "mode": "sweep", "backend": "sqlite", "instances": "shared", "cfg": {"days": 14, "versions": 100},
                             "seed": seedsteps, "reqs": [{"op": op, "argk": argk, "lvl": lvl}], "follow": FOLLOW,
                             "double": tier == "thorough" or (h == 0 and lvl == "http" and i in (0, 3)),
                             "io_variants": "full" if tier == "thorough" else "quick", "max_rounds": 200})
    # ---- lock contention: somebody else holds the write lock for k lock attempts (k around the multiples of one begin's patience)
    for h, hist in enumerate(hists[:1] if tier == "quick" else hists):
        for lvl in ("http", "lib"):
            for i, (op, argk) in enumerate(hist):
                if tier == "quick" and not (op.startswith("Add") or i == 6):
                    continue
                jobs.append({"id": f"l{h}-{lvl}-{i}", "mode": "lock", "backend": "sqlite", "instances": "shared", "cfg": {"days": 14, "versions": 100},
                             "seed": [{"op": o, "arg": ARGK_SYM[a]} for o, a in hist[:i]], "reqs": [{"op": op, "argk": argk, "lvl": lvl}], "follow": FOLLOW, "max_rounds": 120})
    t1 = time.time()
    files, nrounds, perjob = run_conc_jobs(binary, jobs, wd)
    t2 = time.time()
    viols, total = judge(files, spec="TraceConc.tla")
    t3 = time.time()
    log(f"[fault] tlc {t1-t0:.1f}s harness {t2-t1:.1f}s judge {t3-t2:.1f}s rounds {total}")
    found = []
    kinds = collections.Counter()
    distinct = set()
    samples = []
    for f in files:
        with open(f) as fh:
            for line in fh:
                e = json.loads(line)
                info = e.get("info", {})
                kinds[(info.get("sweep"), e["resps"][0]["kind"])] += 1
                distinct.add((e["job"], json.dumps(info, sort_keys=True)))
                if len(samples) < 4 and info.get("sweep") in ("trait", "io") and len(distinct) % 97 == 1:
                    samples.append({"request": e["reqs"][0], "fault": info, "response": e["resps"][0]["kind"], "calls": [c[1] for c in e["log"]]})
    for v in viols:
        if pid not in v["names"]:
            continue
        e = load_event(v["file"], v["line"])
        info = e.get("info", {})
        sig = dict(engine="fault", op=e["reqs"][0]["op"], lvl=e["reqs"][0]["lvl"], sweep=info.get("sweep"), gate=info.get("gate"),
                   when=info.get("when"), resp=e["resps"][0]["kind"])
        what = (f"C05 false: request {e['reqs'][0]} with fault {info}: response {e['resps'][0]}; state before latest={e['seed']['l']} nv={len(e['seed']['v'])}, "
                f"after latest={e['final']['l']} nv={len(e['final']['v'])} snap={e['final']['s']}; follow-ups {[(f['resp']['kind'], f['resp'].get('msg', '')[:50]) for f in e['follow']]}; calls {[c[1] for c in e['log']]}")
        found.append(dict(sig=sig, what=what[:1800], replay=dict(engine="conc", predicate=pid, round=e)))
    coverage = dict(evaluations=total, distinct_nontrivial=len([d for d in distinct if '"probe"' not in d[1]]),
                    rule="for every request of the histories (each on the state left by its predecessors; HTTP and library entry): a fault-free probe counts its storage "
                         "calls and I/O calls; then every storage call fails before / after taking effect (trait level, gating Storage wrapper) and every I/O call "
                         "(pread/pwrite/fsync/ftruncate/open/unlink on the SQLite files, LD_PRELOAD shim) fails with EIO once / ENOSPC persistently; selected double faults; "
                         "lock contention: the next k attempts to take the SQLite write lock are refused (fcntl on the -shm file), k around every multiple 1..6 of the number "
                         "one transaction begin waits out; the follow-up requests go through the very server object that served the faulted request; "
                         "distinct = distinct (request, fault placement); TLC judges response, resulting state and three follow-up requests (C05_Round)",
                    samples=samples, outcome_counts={f"{k[0]}/{k[1]}": n for k, n in kinds.items()},
                    model_runs=model_runs, model_states=states, model_transitions=transitions, sweep_jobs=len(jobs),
                    gates_and_iocalls=[{"job": j["id"], "gates": j.get("gates"), "iocalls": j.get("iocalls")} for j in perjob][:12])
    assumptions = ["SQLite backend (the persistent one); faults are injected at the Storage trait boundary and at libc I/O calls of the database files",
                   "an error answer may leave the state exactly as after the request (only the acknowledgement was lost)"]
    rc = report(pid, tier, "fault_enumeration", found, coverage, assumptions, t0)
    shutil.rmtree(wd, ignore_errors=True)
    return rc


# ---------------------------------------------------------------- CRASH engine (C04)

def engine_crash(pid, tier):
    import crashplan as cp
    from concurrent.futures import ThreadPoolExecutor
    t0 = time.time()
    rng = random.Random(seed() * 69069 + 17)
    binary = build_harness()
    server_bin = build_server_bin()
    wd = workdir("crash")
    shm = os.path.join("/dev/shm" if os.path.isdir("/dev/shm") else wd, f"tcss-crash-{os.getpid()}")
    shutil.rmtree(shm, ignore_errors=True)
    os.makedirs(shm)
    try:
        # ---- design level: Crash enabled at every step of every request program
        cfg = write_cfg(f"crash_{os.getpid()}.cfg", conc_cfg_text("sqlite", True, 1, "ShapesHttp", "SeedsAll", faults=0, crash=True,
                                                                 invariants="MutualExclusion Inv_C04", emit=False))
        out = tlc("MC_Conc.tla", cfg, workers=4, timeout=900)
        if not tlc_ok(out):
            raise ToolError("TLC reports an error on the crash model:\n" + ("\n".join(tlc_error_summary(out)) or out[-3000:]))
        mst = tlc_stats(out)
        names = ["h1"] if tier == "quick" else ["h1", "h2", "h3"]
        run = 1
        trace_files = []
        stats = {}
        nimg = 0
        samples = []
        pre_found = []
        for hname in names:
            # dry run with the I/O log
            d0 = os.path.join(shm, f"{hname}-dry")
            t_dry = os.path.join(wd, f"{hname}-dry.ndjson")
            iolog = os.path.join(wd, f"{hname}.iolog")
            p = cp.crashrun(binary, hname, run, d0, t_dry, iolog=iolog)
            if p.returncode != 0:
                raise ToolError("dry crashrun failed: " + p.stdout[-1000:] + p.stderr[-2000:])
            ncalls = json.loads(p.stdout.strip().splitlines()[-1])["iocalls"]
            events = cp.read_events(t_dry)
            ops = cp.parse_iolog(iolog)
            if any(e["ev"] == "Ack" and e["resp"]["kind"] in ("error", "panic") for e in events):
                raise ToolError("the crash history does not run cleanly without a crash: " + json.dumps([e["resp"] for e in events if e["ev"] == "Ack"])[:500])
            shutil.rmtree(d0, ignore_errors=True)
            # ---- (0) the recorded file-system calls must be a behaviour of the WAL protocol model
            wev, wst = cp.wal_events(ops, events, max_pages=100000)
            wfile = os.path.join(wd, f"{hname}-wal.ndjson")
            with open(wfile, "w") as wf:
                for e_ in wev:
                    wf.write(json.dumps(e_) + "\n")
            wcfg = write_cfg(f"wal_{os.getpid()}_{hname}.cfg", open(os.path.join(SPEC, "TraceWal.cfg")).read().replace(
                "Pages = {" + ",".join(str(i) for i in range(1, 41)) + "}", "Pages = {" + ",".join(str(i) for i in range(1, max(2, wst["pages"]) + 1)) + "}"))
            wout = tlc("TraceWal.tla", wcfg, workers=1, timeout=1800, env={"TRACE": wfile}, heap="4g",
                       java_opts="-Xss1g", gc="-XX:+UseSerialGC")
            mres = re.search(r'<<"WALRESULT", (\d+), (\d+), (.*)>>', wout)
            wal_ok = bool(mres) and int(mres.group(1)) == int(mres.group(2)) + 1 and "is violated" not in wout
            if not mres and "WALRESULT" not in wout:
                raise ToolError("TraceWal did not run: " + wout[-1500:])
            wal_findings = []
            if not wal_ok:
                where = mres.group(3) if mres else "?"
                pos = int(mres.group(1)) if mres else 0
                wal_findings.append(dict(sig=dict(engine="wal", stuck=where[:80]),
                                         what=f"C04 (I/O protocol): the file-system calls recorded while history {hname} ran are not a behaviour of spec/WalDurability.tla: "
                                              f"replay stopped at abstract event {pos} of {len(wev)}: {where}; previous events {wev[max(0, pos - 6):pos - 1]}"
                                              + ("; invariant Durable violated" if "is violated" in wout else ""),
                                         replay=dict(engine="wal", history=hname)))
            stats[hname] = dict(wal_protocol=dict(wst, accepted=wal_ok, abstract_events=len(wev)))
            pre_found += wal_findings
            stats[hname].update(iocalls=ncalls, requests=sum(1 for e in events if e["ev"] == "Ack"),
                                op_counts=dict(collections.Counter(o["op"] for o in ops)))
            # every call is a crash point; very long histories (MiB payloads = thousands of page writes) are strided,
            # but the first call of every request and the call right after its acknowledgement always stay
            cap = 700 if tier == "quick" else 900
            stride = max(1, -(-ncalls // cap))
            ks = sorted(set(range(1, ncalls + 1, stride)) | set(e["io0"] + 1 for e in events if e.get("ev") == "Intent")
                        | set(e["io1"] + 1 for e in events if e.get("ev") == "Ack"))
            ks = [k for k in ks if 1 <= k <= ncalls]
            stats[hname]["crash_point_stride"] = stride
            # images are produced, recovered by the real code in fresh processes, and deleted in bounded batches
            state = dict(run=run, n=0, sample=None, nbin=0, nseen_wal=0)
            bin_cap, bin_stride = (150, 2) if tier == "quick" else (600, 1)

            def recover_batch(images):
                if not images:
                    return
                # the images whose write-ahead log holds something are recovered a second time the way a deployment does it:
                # the real executable starts on (a copy of) the directory first
                extra = []
                for im in images:
                    walf = os.path.join(im["dir"], cp.DBNAME + "-wal")
                    if os.path.exists(walf) and os.path.getsize(walf) > 0 and state["nbin"] < bin_cap and (state["nseen_wal"] % bin_stride) == 0:
                        d2 = im["dir"] + "-bin"
                        shutil.copytree(im["dir"], d2)
                        extra.append(dict(im, dir=d2, variant=str(im.get("variant")) + "+binary-restart", via_binary=server_bin, listen=f"127.0.0.1:{free_ports(1)[0]}"))
                        state["nbin"] += 1
                    if os.path.exists(walf) and os.path.getsize(walf) > 0:
                        state["nseen_wal"] += 1
                images = images + extra
                for im in images:
                    im["run"] = state["run"]
                    state["run"] += 1
                state["n"] += len(images)
                nb = min(NCPU, len(images))
                batches = [images[i::nb] for i in range(nb)]
                tag = state["run"]

                def recover(bi):
                    pf = os.path.join(wd, f"{hname}-rec{tag}-{bi}.json")
                    of = os.path.join(wd, f"{hname}-rec{tag}-{bi}.ndjson")
                    json.dump({"images": batches[bi], "continuation": cp.CONTINUATION}, open(pf, "w"))
                    run_harness(binary, ["recover", pf, of], timeout=3000)
                    os.remove(pf)
                    return of
                with ThreadPoolExecutor(max_workers=nb) as ex:
                    for of in ex.map(recover, range(nb)):
                        trace_files.append(of)
                if state["sample"] is None:
                    im = images[len(images) // 2]
                    state["sample"] = {"crash_point": im["k"], "variant": im["variant"], "history": hname,
                                       "known_at_crash": [dict(ev=e["ev"], req=e.get("req"), resp=e.get("resp", {}).get("kind")) for e in im["prefix"][-3:]]}
                for im in images:
                    shutil.rmtree(im["dir"], ignore_errors=True)

            # ---- (i) process-crash images: the real process is killed before call k
            def kill_at(k):
                d = os.path.join(shm, f"{hname}-pc{k}")
                t = os.path.join(wd, f"{hname}-pc{k}.ndjson")
                p = cp.crashrun(binary, hname, 0, d, t, crash_at=k)
                return k, d, t, p.returncode
            npc = 0
            dbsize = max(1, sum(len(o["data"]) for o in ops))          # upper bound of what a data directory holds
            per_batch = max(NCPU, min(400, int(2e9 // dbsize)))
            for i0 in range(0, len(ks), per_batch):
                images = []
                with ThreadPoolExecutor(max_workers=NCPU) as ex:
                    for k, d, t, rc in ex.map(kill_at, ks[i0:i0 + per_batch]):
                        if rc not in (77, 0):
                            raise ToolError(f"crashrun at {k} ended with {rc}")
                        evs = cp.read_events(t)
                        os.remove(t)
                        if rc == 77 and evs:
                            images.append(dict(dir=d, prefix=evs, k=k, variant="process-crash"))
                        else:
                            shutil.rmtree(d, ignore_errors=True)
                npc += len(images)
                recover_batch(images)
            stats[hname]["process_crash_images"] = npc
            # ---- (ii) power-loss images rebuilt from the I/O log
            dm = cp.DiskModel()
            byseq = {o["seq"]: o for o in ops}
            maxpend = npl = 0
            images, batch_bytes, j = [], 0, 0
            for k in range(1, ncalls + 2):
                if k in ks or k == ncalls + 1:
                    n = len(dm.pending)
                    maxpend = max(maxpend, n)
                    big = dm.size() > 3_000_000         # large data directories: fewer variants per crash point
                    vs = cp.variants(n, rng, "quick" if big else tier)
                    if tier == "thorough" and n > 0 and not big:
                        vs = vs + [(f"torn{n-1}", None)]
                    if npl > 8000:
                        # bounded: beyond 8 000 power-loss images of one history only the two extreme variants of each crash point
                        vs = vs[:2]
                        stats[hname]["power_loss_variants_reduced_after_images"] = 8000
                    for vname, subset in vs:
                        files = dm.image(frozenset(range(n)), torn=n - 1) if subset is None else dm.image(subset)
                        d = os.path.join(shm, f"{hname}-pl{j}")
                        j += 1
                        cp.write_image(files, d, dm.dirs)
                        batch_bytes += sum(len(b) for b in files.values())
                        images.append(dict(dir=d, prefix=cp.prefix_for(events, k), k=k, variant="power-loss:" + vname))
                        npl += 1
                        if batch_bytes > 2e9 or len(images) >= 3000:
                            recover_batch(images)
                            images, batch_bytes = [], 0
                if k in byseq:
                    dm.step(byseq[k])
            recover_batch(images)
            stats[hname]["power_loss_images"] = npl
            stats[hname]["images_also_restarted_through_the_real_executable"] = state["nbin"]
            stats[hname]["max_unsynced_ops"] = maxpend
            stats[hname]["files_seen"] = sorted(set(cp.fname(o["cls"].split(">")[-1]) for o in ops))[:12]
            run = state["run"] + 1
            nimg += state["n"]
            if not samples and state["sample"]:
                samples.append(state["sample"])
        t1 = time.time()
        chunks = split_trace(trace_files, os.path.join(wd, "chunks"), max_events=12000)
        viols, total = judge(chunks)
        t2 = time.time()
        log(f"[crash] images {nimg} in {t1-t0:.1f}s judge {t2-t1:.1f}s events {total}")
        found = list(pre_found)
        for v in viols:
            names_ = [n for n in v["names"] if n not in NOTE_NAMES]
            if not names_ or len(found) >= 40:
                continue
            run_evs = load_run(v["file"], v["run"])
            crash = next((e for e in run_evs if e.get("ev") == "Crash"), {})
            ev = load_event(v["file"], v["line"])
            vkind = str(crash.get("variant", "")).split(":")[0]
            sig = dict(engine="crash", variant=vkind, event=ev.get("ev"), names=sorted(names_),
                       pending=next((e["req"]["op"] for e in reversed(run_evs) if e.get("ev") == "Intent"), None))
            what = (f"C04: crash before I/O call {crash.get('k')} ({crash.get('variant')}): after recovery predicate(s) {names_} false at event {ev.get('ev')} "
                    f"{json.dumps(ev.get('req'))} -> {json.dumps(ev.get('resp'))} integrity={ev.get('integrity')}; "
                    f"last known: {[(e['ev'], e.get('req', {}).get('op'), e.get('resp', {}).get('kind')) for e in run_evs if e.get('ev') in ('Intent', 'Ack')][-3:]}")
            found.append(dict(sig=sig, what=what[:1800], replay=dict(engine="crash", predicate=pid, events=run_evs[-14:])))
        coverage = dict(evaluations=nimg, distinct_nontrivial=nimg,
                        rule="every file-system call (write, truncate, sync, delete, create) the database issues while the history runs is a crash point; "
                             "for each: the process-crash image (the real process is killed just before the call) and power-loss images (content as of the last "
                             "fsync plus a subset of the later writes: none, all, prefixes, single omissions, single survivors, seeded random subsets; all subsets "
                             "when few); every image is distinct by (crash point, variant); each is opened by the real code in a fresh process, checked with "
                             "PRAGMA integrity_check, projected, exercised with further requests, and judged by TLC (Recovered event of TraceSeq)",
                        samples=samples, histories=stats, events_judged=total, model_states=mst["distinct"], model_transitions=mst["generated"])
        assumptions = ["directory operations (create, unlink) are durable in issue order", "a pwrite is atomic (thorough adds sector-torn last writes)",
                       "the kernel and tmpfs honour write/fsync semantics; SQLite's own recovery code is exercised, not verified",
                       "the -shm file is not part of a power-loss image"]
        rc = report(pid, tier, "fault_enumeration", found, coverage, assumptions, t0)
        return rc
    finally:
        shutil.rmtree(shm, ignore_errors=True)
        shutil.rmtree(wd, ignore_errors=True)


# ---------------------------------------------------------------- BYTES engine (C06)

C06_CLASSES = ["random", "zeros", "ff", "digits", "utf8", "badutf8", "nuls"]


def engine_bytes(pid, tier):
    t0 = time.time()
    rng = random.Random(seed() * 1000003 + 29)
    binary = build_harness()
    wd = workdir("bytes")
    sizes_small = [1, 2, 3, 7, 16, 255, 256, 257, 1023, 1024]
    page = list(range(4000, 4201)) if tier == "thorough" else list(range(4000, 4201, 3)) + [4096, 4095, 4097, 4088, 4089]
    sizes_mid = [8191, 8192, 8193, 65535, 65536, 65537]
    sizes_big = [1048575, 1048576, 1048577]
    configs = [("inmemory", "http"), ("sqlite", "http"), ("sqlite", "sock"), ("inmemory", "sock"), ("sqlite", "lib")]
    jobs, run0 = [], 1
    seedc = [0]

    def gen(cls, size):
        seedc[0] += 1
        return {"cls": cls, "size": size, "seed": seedc[0]}

    def chain_job(payloads, backend, driver, tag):
        """payloads: list of (cls, size, chunklist or None, as_snapshot)"""
        nonlocal run0
        steps = [{"op": "NewClient", "c": 1}] if driver == "lib" else []
        first = True
        nonnil = (run0 % 2 == 0)        # every other chain starts from a non-nil parent id
        for cls, size, chunks, snap in payloads:
            st = {"op": "AddVersion", "c": 1, "arg": ({"sym": "rnd", "k": 3} if (first and nonnil) else {"sym": "latest"}), "gen": gen(cls, size)}
            if chunks and driver != "lib":
                st["chunklist"] = chunks
            steps.append(st)
            steps.append({"op": "GetChildVersion", "c": 1, "arg": ({"sym": "rnd", "k": 3} if nonnil else {"sym": "nil"}) if first else {"sym": "anc", "k": 1}})
            if first and nonnil:
                # nothing was uploaded as a child of nil: whatever comes back here must carry the ids it was uploaded with
                steps.append({"op": "GetChildVersion", "c": 1, "arg": {"sym": "nil"}})
            first = False
            if snap:
                st2 = {"op": "AddSnapshot", "c": 1, "arg": {"sym": "latest"}, "gen": gen(cls, size)}
                if chunks and driver != "lib":
                    st2["chunklist"] = chunks
                steps += [st2, {"op": "GetSnapshot", "c": 1}]
                if run0 % 3 == 0:
                    # the same version once more, other bytes: the snapshot of a version is the upload that created it
                    st3 = {"op": "AddSnapshot", "c": 1, "arg": {"sym": "latest"}, "gen": gen(cls, size + 1)}
                    steps += [st3, {"op": "GetSnapshot", "c": 1}]
        steps.append({"op": "Reopen"})
        steps.append({"op": "Walk", "c": 1, "from": {"sym": "base"}})
        steps.append({"op": "GetSnapshot", "c": 1})
        jobs.append({"id": f"{tag}{run0}", "run": run0, "backend": backend, "driver": driver, "cfg": {"days": 14, "versions": 100},
                     "nclients": 1, "steps": steps, "first_free": 1, "kind": "bytes"})
        run0 += 1

    k = 0
    for backend, driver in configs:
        frac = 1.0 if (driver == "http" or tier == "thorough") else 0.35
        # every size of the page-boundary region, classes cycling
        sel = [sz for sz in sizes_small + page + sizes_mid if rng.random() < frac]
        pl = []
        for sz in sel:
            cls = C06_CLASSES[k % len(C06_CLASSES)]
            k += 1
            pl.append((cls, sz, None, k % 3 == 0))
        for i in range(0, len(pl), 20):
            chain_job(pl[i:i + 20], backend, driver, "sz")
        # all byte classes at a few sizes
        pl = [(cls, sz, None, True) for cls in C06_CLASSES for sz in (1, 2, 300, 4096, 4100)]
        for i in range(0, len(pl), 18):
            chain_job(pl[i:i + 18], backend, driver, "cls")
        if driver != "lib":
            # every split position of short bodies; splits around the page / 64 KiB boundaries of long ones
            pl = []
            for n in (range(2, 14) if tier == "thorough" else (2, 3, 5, 8, 13)):
                for cut in range(1, n):
                    pl.append(("random", n, [cut], cut % 2 == 0))
            for n, cuts in ((4100, [[1], [4095], [4096], [4097], [4099], [1, 4095], [2048, 2048]]),
                            (65537, [[65535], [65536], [1, 65535], [32768, 32768], [4096] * 15]),
                            (8192, [[4096], [4095, 2], [1, 1, 1]])):
                for c in cuts:
                    pl.append((rng.choice(C06_CLASSES), n, c, True))
            for _ in range(10 if tier == "quick" else 60):
                n = rng.choice([300, 4097, 5000, 70000])
                cuts = sorted(rng.sample(range(1, n), rng.randint(1, 4)))
                pl.append((rng.choice(C06_CLASSES), n, [b - a for a, b in zip([0] + cuts, cuts)], rng.random() < 0.5))
            for i in range(0, len(pl), 16):
                chain_job(pl[i:i + 16], backend, driver, "ch")
        if driver != "lib":
            # uploads that break in the middle (transport error after the first piece): nothing of them may ever be served
            def ab(route, size, arg):
                return {"op": "Raw", "c": 1, "arg": arg, "hg": {"route": route, "method": "POST", "cid": "valid", "pid": "valid", "ct": "right",
                                                                 "size": size, "chunks": 1, "abort": True, "cls": "no"}}
            lat = {"sym": "latest"}
            steps = [{"op": "AddVersion", "c": 1, "arg": {"sym": "nil"}, "gen": gen("random", 40)}]
            for sz in (3, 30, 9000, 200000):
                steps += [ab("av", sz, lat), {"op": "GetChildVersion", "c": 1, "arg": lat}, ab("as", sz, lat), {"op": "GetSnapshot", "c": 1}]
            steps += [{"op": "AddVersion", "c": 1, "arg": lat, "gen": gen("random", 50)}, {"op": "GetChildVersion", "c": 1, "arg": {"sym": "anc", "k": 1}},
                      {"op": "AddSnapshot", "c": 1, "arg": lat, "gen": gen("random", 60)}, ab("as", 300, lat), {"op": "GetSnapshot", "c": 1},
                      ab("av", 300, lat), {"op": "GetChildVersion", "c": 1, "arg": lat}, {"op": "Reopen"}, {"op": "Walk", "c": 1, "from": {"sym": "base"}},
                      {"op": "GetSnapshot", "c": 1}]
            jobs.append({"id": f"abort{run0}", "run": run0, "backend": backend, "driver": driver, "cfg": {"days": 14, "versions": 100},
                         "nclients": 1, "steps": steps, "first_free": 1, "kind": "bytes"})
            run0 += 1
        # 1 MiB +- 1 (own jobs: the payloads are held several times)
        if (backend, driver) in (("sqlite", "http"), ("sqlite", "sock"), ("inmemory", "http")) or tier == "thorough":
            chain_job([(rng.choice(C06_CLASSES), sz, ([524288] if driver != "lib" else None), True) for sz in sizes_big], backend, driver, "big")
    oj = seqplan.overlap_jobs(rng, 8 if tier == "quick" else 64, run0, many=True)
    for j in oj:
        j["kind"] = "bytes"
    run0 += len(oj)
    jobs += oj
    lim = 100 * 1024 * 1024
    if tier == "thorough":
        for backend in ("sqlite", "inmemory"):
            for sz in (lim - 1, lim):
                chain_job([("random", sz, [lim // 2], False)], backend, "http", "huge")
    else:
        chain_job([("random", lim, [lim // 2], False)], "inmemory", "http", "huge")
    plan = {"threads": 1, "needs_clock": False, "jobs": jobs}
    t1 = time.time()
    huge = [j for j in jobs if j["id"].startswith("huge")]
    rest = [j for j in jobs if not j["id"].startswith("huge")]
    summ, files = run_harness_sharded(binary, "seq", dict(plan, jobs=rest), wd, env=SOCK_ENV)
    if huge:
        wd2 = os.path.join(wd, "huge")
        os.makedirs(wd2)
        s2, f2 = run_harness_sharded(binary, "seq", dict(plan, jobs=huge), wd2, nproc=2)
        summ["summaries"] += s2["summaries"]
        files += f2
    t2 = time.time()
    chunks = split_trace(files, os.path.join(wd, "chunks"), max_events=6000)
    viols, total = judge(chunks, heap="4g")
    t3 = time.time()
    log(f"[bytes] plan {t1-t0:.1f}s harness {t2-t1:.1f}s judge {t3-t2:.1f}s events {total}")
    found, notes, per_name = seq_collect(pid, viols, jobs, summ["summaries"], chunks)
    # the socket-level steps of the overlapping uploads, replayed as the actions of SyncUpload
    ustats, ubad = upload_conformance(files, wd)
    jr = {j["run"]: j for j in jobs}
    for kind, f, ln, e in ubad:
        if kind == "apply" and len(found) < 40:
            job = jr.get(e["run"], {})
            found.append(dict(sig=dict(engine="upload", kind=kind, backend=job.get("backend"), workers=job.get("workers")),
                              what=f"C06: the upload path does not conform to SyncUpload (Integrity): in the group of overlapping uploads at run {e['run']} step {e['i']} "
                                   f"({job.get('backend')}/sock, {job.get('workers')} worker(s)) an upload was answered {json.dumps(e['resp'])} but the stored bytes are not "
                                   f"the bytes it sent (or it was not answered); socket steps {json.dumps(e['overlap']['phases'])[:700]}",
                              replay=dict(engine="seq", predicate=pid, job=dict(job, steps=job.get("steps", [])[: max(0, e["i"]) + 1]))))
        elif len(notes) < 10:
            notes.append(f"upload path: {kind} step without a SyncUpload action at run {e['run']} step {e['i']}")
    # what was covered
    distinct = set()
    nround = 0
    for j in jobs:
        for st in j["steps"]:
            if "gen" in st:
                nround += 1
                distinct.add((st["op"], st["gen"]["cls"], st["gen"]["size"], json.dumps(st.get("chunklist")), j["backend"], j["driver"]))
    nev, ops, evs = count_events(chunks)
    umodel = upload_model(wd, tier)
    coverage = dict(evaluations=nround, distinct_nontrivial=len(distinct), upload_layer_model=umodel, upload_conformance=ustats,
                    rule="each payload (byte class x length x chunk splitting) is uploaded as a version and/or snapshot and read back through GetChildVersion / "
                         "GetSnapshot / a chain walk, also after reopening; the harness maps returned bytes to the token of the upload they equal exactly "
                         "(else -1); TLC checks on every step that the token, version id and parent id are those of the creating upload (C06_Step). "
                         "distinct = distinct (operation, class, length, chunk list, backend, driver)",
                    samples=[{"upload": next((st for st in j["steps"] if "gen" in st), None), "backend": j["backend"], "driver": j["driver"]} for j in (jobs[0], jobs[len(jobs) // 2], jobs[-1])],
                    jobs=len(jobs), events_judged=total, outcome_counts={f"{op}/{k}": n for (op, k), n in sorted(ops.items())},
                    lengths=dict(min=1, page_region=f"{min(page)}..{max(page)} ({len(page)} lengths)", max=max(st["gen"]["size"] for j in jobs for st in j["steps"] if "gen" in st)),
                    byte_classes=C06_CLASSES, drivers=sorted(set(c[1] for c in configs)), predicate_failures_all_properties=dict(per_name))
    assumptions = ["TLC never sees bytes: 'all payloads' is covered by a seeded generator over lengths/classes/splittings, not enumerated",
                   "the 100 MiB cases run in the thorough tier only"]
    rc = report(pid, tier, "exploration", found, coverage, assumptions, t0, notes)
    shutil.rmtree(wd, ignore_errors=True)
    return rc


# ---------------------------------------------------------------- FIXTURE engine (C19)

def engine_fix(pid, tier):
    import crashplan as cp
    t0 = time.time()
    binary = build_harness()
    wd = workdir("fix")
    fdir = os.path.join(ROOT, "fixtures")
    names = sorted(d for d in os.listdir(fdir) if os.path.isdir(os.path.join(fdir, d)))
    if len(names) < 2:
        raise ToolError("fixture corpus missing (tools/gen_fixtures.py)")
    scratch = os.path.join("/dev/shm" if os.path.isdir("/dev/shm") else wd, f"tcss-fix-{os.getpid()}")
    shutil.rmtree(scratch, ignore_errors=True)
    try:
        images, samples = [], []
        reps = 1 if tier == "quick" else 3          # thorough: also re-open repeatedly / different continuations
        run = 1
        for n in names:
            evs = cp.read_events(os.path.join(fdir, n, "trace.ndjson"))
            meta = json.load(open(os.path.join(fdir, n, "meta.json")))
            for r in range(reps):
                d = os.path.join(scratch, f"{n}-{r}")
                os.makedirs(d)
                for f in meta["files"]:
                    shutil.copy(os.path.join(fdir, n, f), os.path.join(d, f))
                images.append(dict(dir=d, prefix=evs, k=0, variant="fixture:" + n, run=run))
                run += 1
            if len(samples) < 3:
                samples.append({"fixture": n, "how": meta["how"], "acknowledged_requests": meta["requests_acknowledged"], "in_flight": meta["in_flight"], "files": meta["files"]})
        nclients = max(len(im["prefix"][0]["clients"]) for im in images)
        cont = []
        for c in range(1, 4):
            cont += [{"op": "Walk", "c": c, "from": {"sym": "base"}}, {"op": "GetSnapshot", "c": c}, {"op": "Walk", "c": c, "from": {"sym": "snap"}},
                     {"op": "GetChildVersion", "c": c, "arg": {"sym": "anc", "k": 1}}]
        for c in range(1, 4):
            cont += [{"op": "AddVersion", "c": c, "arg": {"sym": "latest"}}, {"op": "AddVersion", "c": c, "arg": {"sym": "latest"}},
                     {"op": "AddSnapshot", "c": c, "arg": {"sym": "latest"}}, {"op": "GetSnapshot", "c": c}, {"op": "Walk", "c": c, "from": {"sym": "base"}}]
        cont += [{"op": "Reopen"}] + [{"op": "Walk", "c": c, "from": {"sym": "base"}} for c in range(1, 4)]
        files = []
        from concurrent.futures import ThreadPoolExecutor
        nb = min(NCPU, len(images))
        batches = [images[i::nb] for i in range(nb)]

        def rec(bi):
            b = batches[bi]
            # a fixture with fewer clients gets only the continuation steps of its clients
            outs = []
            for j, im in enumerate(b):
                ncl = len(im["prefix"][0]["clients"])
                pf = os.path.join(wd, f"rec{bi}-{j}.json")
                of = os.path.join(wd, f"rec{bi}-{j}.ndjson")
                json.dump({"images": [im], "continuation": [s for s in cont if s.get("c", 1) <= ncl]}, open(pf, "w"))
                run_harness(binary, ["recover", pf, of], timeout=1200)
                outs.append(of)
            return outs
        with ThreadPoolExecutor(max_workers=nb) as ex:
            for outs in ex.map(rec, range(nb)):
                files += outs
        chunks = split_trace(files, os.path.join(wd, "chunks"))
        viols, total = judge(chunks)
        found = []
        for v in viols:
            names_ = [n for n in v["names"] if n not in NOTE_NAMES]
            if not names_:
                continue
            run_evs = load_run(v["file"], v["run"])
            crash = next((e for e in run_evs if e.get("ev") == "Crash"), {})
            ev = load_event(v["file"], v["line"])
            sig = dict(engine="fix", fixture=str(crash.get("variant", "")).split(":")[-1], event=ev.get("ev"), names=sorted(names_))
            what = (f"C19: fixture {crash.get('variant')} opened by the current code: predicate(s) {names_} false at event {ev.get('ev')} "
                    f"{json.dumps(ev.get('req'))} -> {json.dumps(ev.get('resp'))} integrity={ev.get('integrity')} msg={ev.get('msg')}")
            found.append(dict(sig=sig, what=what[:1500], replay=dict(engine="fix", predicate=pid, fixture=sig["fixture"], events=run_evs[-8:])))
        nev, ops, _ = count_events(chunks)
        coverage = dict(evaluations=len(images), distinct_nontrivial=len(names),
                        rule="each committed fixture (a data directory written by the pinned tree a6bc6ed: 4 histories x {cleanly closed, killed inside a transaction at two "
                             "points with leftover -wal/-shm}) is copied, opened by the current code, checked with PRAGMA integrity_check and projected; the "
                             "stored trace of the producing history supplies the expected logical content (ghost), a continuation appends to every chain; TLC "
                             "judges Recovered and all continuation steps; distinct = fixtures",
                        samples=samples, fixtures=names, events_judged=total, outcome_counts={f"{op}/{k}": n for (op, k), n in sorted(ops.items())})
        assumptions = ["the corpus was produced once by tools/gen_fixtures.py from a temporary worktree of the pinned commit and is committed",
                       "a finite sample of histories / payload sizes (up to 1 MiB)"]
        return report(pid, tier, "exploration", found, coverage, assumptions, t0)
    finally:
        shutil.rmtree(scratch, ignore_errors=True)
        shutil.rmtree(wd, ignore_errors=True)


# ---------------------------------------------------------------- BIN engine (C17): the real executable

def free_ports(n):
    import socket
    socks, ports = [], []
    for _ in range(n):
        s_ = socket.socket()
        s_.bind(("127.0.0.1", 0))
        socks.append(s_)
        ports.append(s_.getsockname()[1])
    for s_ in socks:
        s_.close()
    return ports


def have_ipv6():
    import socket
    try:
        s_ = socket.socket(socket.AF_INET6)
        s_.bind(("::1", 0))
        s_.close()
        return True
    except Exception:
        return False


def bin_steps(days, versions, allow):
    st = []
    av = lambda c, a=None: {"op": "AddVersion", "c": c, "arg": a or {"sym": "latest"}}
    st += [av(1, {"sym": "nil"}), {"op": "GetChildVersion", "c": 1, "arg": {"sym": "nil"}}, av(1), {"op": "AddSnapshot", "c": 1, "arg": {"sym": "latest"}}]
    nver = min(versions + versions // 2 + 1, 9) if versions <= 6 else 3
    for _ in range(nver):                      # urgency by versions-since: none -> low -> high
        st.append(av(1))
    st += [av(2, {"sym": "rnd", "k": 1}), av(2), {"op": "GetSnapshot", "c": 2}, {"op": "AddSnapshot", "c": 2, "arg": {"sym": "latest"}}]
    # the third client (unlisted when a list is configured) on all four endpoints
    st += [av(3, {"sym": "nil"}), {"op": "GetChildVersion", "c": 3, "arg": {"sym": "nil"}}, {"op": "AddSnapshot", "c": 3, "arg": {"sym": "latest"}},
           {"op": "GetSnapshot", "c": 3}]
    st += [{"op": "AddSnapshot", "c": 1, "arg": {"sym": "latest"}}, av(1)]
    if days > 0:                               # urgency by age: low at `days`, high at 1.5 x days
        st += [{"op": "SetDayRel", "by": max(days - 1, 1)}, av(2), {"op": "SetDayRel", "by": 1}, av(1), av(2),
               {"op": "SetDayRel", "by": days // 2 + 1}, av(1), av(2)]
    else:
        st += [av(1), av(2)]
    st += [{"op": "Reopen"},                   # SIGKILL and restart on the same directory
           {"op": "Walk", "c": 1, "from": {"sym": "base"}}, {"op": "Walk", "c": 2, "from": {"sym": "base"}}, {"op": "GetSnapshot", "c": 1},
           av(1), {"op": "GetChildVersion", "c": 1, "arg": {"sym": "anc", "k": 1}}, av(1, {"sym": "first"}), av(3),
           {"op": "GetChildVersion", "c": 3, "arg": {"sym": "nil"}}, {"op": "Reopen"}, {"op": "Walk", "c": 1, "from": {"sym": "base"}},
           {"op": "GetSnapshot", "c": 2}, av(2)]
    return st


def bin_default_job(server, scratch, rng, k, run):
    """The real executable with NO snapshot option given (neither flag nor environment): the documented defaults (14 days,
    100 versions) are the configuration.  Age thresholds through the clock shim, version thresholds by 150 real uploads."""
    import uuid as uuidlib
    ports = free_ports(1)
    listen = ["127.0.0.1:%d" % ports[0]]
    uu = [str(uuidlib.UUID(int=rng.getrandbits(128), version=4)) for _ in range(3)]
    data_dir = os.path.join(scratch, f"data{k}", "defaults")
    cwd = os.path.join(scratch, f"cwd{k}")
    os.makedirs(cwd, exist_ok=True)
    clock = os.path.join(scratch, f"clock{k}")
    open(clock, "w").write("0\n")
    args = ["--data-dir", data_dir, "--listen", listen[0]]
    av = lambda c, a=None: {"op": "AddVersion", "c": c, "arg": a or {"sym": "latest"}}
    steps = bin_steps(14, 100, None)
    steps += [{"op": "AddSnapshot", "c": 2, "arg": {"sym": "latest"}}] + [av(2) for _ in range(152)] + [{"op": "GetSnapshot", "c": 2}]
    cfg = dict(k=k, listen=listen, data_dir=data_dir, cwd=cwd, allow=None, days=14, versions=100, args=args, env={}, special="defaults")
    job = {"id": f"bin{k}", "run": run, "backend": "sqlite", "driver": "bin", "dir": data_dir, "cfg": {"days": 14, "versions": 100},
           "nclients": 3, "client_uuids": uu, "allow": None, "first_free": 1,
           "bin": {"path": server, "listen": listen, "args": args, "env": {}, "cwd": cwd, "clock_file": clock},
           "steps": steps, "kind": "binary"}
    return cfg, job


def engine_bin(pid, tier):
    import uuid as uuidlib
    t0 = time.time()
    rng = random.Random(seed() * 7 + 12345)
    binary = build_harness()
    server = build_server_bin()
    wd = workdir("bin")
    scratch = os.path.join("/dev/shm" if os.path.isdir("/dev/shm") else wd, f"tcss-bin-{os.getpid()}")
    shutil.rmtree(scratch, ignore_errors=True)
    os.makedirs(scratch)
    try:
        ipv6 = have_ipv6()
        n = 8 if tier == "quick" else 48
        # pairwise-ish cover: cycle each dimension with co-prime periods, then seeded random
        days_v = [0, 1, 2, 3, 14]
        vers_v = [0, 1, 2, 3, 5, 100]
        allow_v = [None, [1], [1, 2], [2]]
        jobs, cfgs = [], []
        for k in range(n):
            days = days_v[k % len(days_v)] if k < 10 else rng.choice(days_v + [7])
            versions = vers_v[(k * 5 + 1) % len(vers_v)] if k < 12 else rng.choice(vers_v)
            allow = allow_v[k % len(allow_v)]
            nlisten = 1 + k % 3
            ports = free_ports(nlisten)
            forms = ["127.0.0.1:%d", "localhost:%d", "[::1]:%d" if ipv6 else "127.0.0.1:%d"]
            listen = [forms[(k + i) % 3] % ports[i] for i in range(nlisten)]
            uu = [str(uuidlib.UUID(int=rng.getrandbits(128), version=4)) for _ in range(3)]
            data_dir = os.path.join(scratch, f"data{k}", "nested")        # must be created by the server
            cwd = os.path.join(scratch, f"cwd{k}")
            os.makedirs(cwd)
            args, env = [], {}
            by = [(k >> i) & 1 for i in range(5)]                      # each option by flag (0) or environment (1)
            if by[0]:
                env["LISTEN"] = ",".join(listen)
            else:
                for a in listen:
                    args += [rng.choice(["--listen", "-l"]), a]
            if by[1]:
                env["DATA_DIR"] = data_dir
            else:
                args += [rng.choice(["--data-dir", "-d"]), data_dir]
            if allow is not None:
                ids = [uu[i - 1] for i in allow]
                if by[2]:
                    env["CLIENT_ID"] = ",".join(ids)
                else:
                    for u in ids:
                        args += [rng.choice(["--allow-client-id", "-C"]), u]
            if by[3]:
                env["SNAPSHOT_DAYS"] = str(days)
            else:
                args += ["--snapshot-days", str(days)]
            if by[4]:
                env["SNAPSHOT_VERSIONS"] = str(versions)
            else:
                args += ["--snapshot-versions", str(versions)]
            clock = os.path.join(scratch, f"clock{k}")
            open(clock, "w").write("0\n")
            cfgs.append(dict(k=k, listen=listen, data_dir=data_dir, cwd=cwd, allow=allow, days=days, versions=versions, args=args, env=env))
            jobs.append({"id": f"bin{k}", "run": k + 1, "backend": "sqlite", "driver": "bin", "dir": data_dir,
                         "cfg": {"days": days, "versions": versions}, "nclients": 3, "client_uuids": uu, "allow": allow, "first_free": 1,
                         "bin": {"path": server, "listen": listen, "args": args, "env": env, "cwd": cwd, "clock_file": clock},
                         "steps": bin_steps(days, versions, allow), "kind": "binary"})
        # two special configurations: a data directory whose name contains '#', and a listen address that cannot be
        # bound (its port is held by this process): the server must serve on it anyway or refuse to start
        import socket as _socket
        held = _socket.socket()
        held.bind(("127.0.0.1", 0))
        held.listen(1)
        for special in ("hashdir", "busyport"):
            k = len(cfgs)
            ports = free_ports(1)
            listen = ["127.0.0.1:%d" % ports[0]]
            if special == "busyport":
                listen.append("127.0.0.1:%d" % held.getsockname()[1])
            uu = [str(uuidlib.UUID(int=rng.getrandbits(128), version=4)) for _ in range(3)]
            data_dir = os.path.join(scratch, f"data{k}", "run#1" if special == "hashdir" else "plain", "nested")
            cwd = os.path.join(scratch, f"cwd{k}")
            os.makedirs(cwd)
            clock = os.path.join(scratch, f"clock{k}")
            open(clock, "w").write("0\n")
            args = ["--data-dir", data_dir, "--snapshot-days", "2", "--snapshot-versions", "2"]
            env = {"LISTEN": ",".join(listen)}
            cfgs.append(dict(k=k, listen=listen, data_dir=data_dir, cwd=cwd, allow=None, days=2, versions=2, args=args, env=env, special=special))
            jobs.append({"id": f"bin{k}", "run": k + 1, "backend": "sqlite", "driver": "bin", "dir": data_dir, "cfg": {"days": 2, "versions": 2},
                         "nclients": 3, "client_uuids": uu, "allow": None, "first_free": 1, "start_may_fail": special == "busyport",
                         "bin": {"path": server, "listen": listen, "args": args, "env": env, "cwd": cwd, "clock_file": clock},
                         "steps": (bin_steps(2, 2, None) if special != "busyport" else bin_steps(2, 2, None)[:8]), "kind": "binary"})
        c_, j_ = bin_default_job(server, scratch, rng, len(cfgs), len(cfgs) + 1)
        cfgs.append(c_)
        jobs.append(j_)
        plan = {"threads": 1, "needs_clock": True, "jobs": jobs}
        t1 = time.time()
        summ, files = run_harness_sharded(binary, "seq", plan, wd, nproc=min(8, len(jobs)), env={"TCSS_SOCK_TIMEOUT": "4"})
        held.close()
        refused_start = [s_.get("id") for s_ in summ["summaries"] if s_.get("start_failed")]
        t2 = time.time()
        chunks = split_trace(files, os.path.join(wd, "chunks"))
        viols, total = judge(chunks)
        log(f"[bin] build {t1-t0:.1f}s run {t2-t1:.1f}s judge {time.time()-t2:.1f}s events {total}")
        jobs_by_run = {j["run"]: j for j in jobs}
        found = []
        for v in viols:
            names_ = [x for x in v["names"] if x not in NOTE_NAMES]
            if not names_:
                continue
            ev = load_event(v["file"], v["line"])
            c = cfgs[v["run"] - 1]
            sig = dict(engine="bin", names=sorted(names_), op=ev["req"]["op"], resp=ev["resp"]["kind"], nlisten=len(c["listen"]),
                       allow=c["allow"] is not None)
            what = (f"C17: real binary started with args {c['args']} env {c['env']} (targets days={c['days']} versions={c['versions']}, allow={c['allow']}): "
                    f"predicate(s) {names_} false at step {v['i']}: {json.dumps(ev['req'])} -> {json.dumps(ev['resp'])} msg={ev.get('msg')} "
                    f"http={json.dumps(ev.get('http', {}).get('status'))} day={ev.get('day')}")
            found.append(dict(sig=sig, what=what[:1800], replay=dict(engine="bin", predicate=pid, config=c)))
        # a configuration the server must accept, but it did not come up
        not_started = {s_.get("id"): s_["start_refused"] for s_ in summ["summaries"] if s_.get("start_refused")}
        for c in cfgs:
            jid = f"bin{c['k']}"
            if jid in not_started:
                found.append(dict(sig=dict(engine="bin", names=["start"], nlisten=len(c["listen"]), ipv6=any("[" in a for a in c["listen"])),
                                  what=f"C17: the real binary did not come up with a valid configuration: args {c['args']} env {c['env']} (listen {c['listen']}): {not_started[jid]}",
                                  replay=dict(engine="bin", predicate=pid, config=c)))
        # the data must be in the configured directory and nowhere else
        for c in cfgs:
            if f"bin{c['k']}" in refused_start or f"bin{c['k']}" in not_started:
                continue            # the server refused to start with an address it cannot bind: nothing was served
            db = os.path.join(c["data_dir"], "taskchampion-sync-server.sqlite3")
            top = os.path.join(scratch, f"data{c['k']}")
            stray = os.listdir(c["cwd"]) + [os.path.join(r_, f_) for r_, _d, fs_ in os.walk(top) for f_ in fs_
                                             if not os.path.join(r_, f_).startswith(c["data_dir"] + os.sep)]
            if not os.path.exists(db) or stray:
                found.append(dict(sig=dict(engine="bin", names=["datadir"]), what=f"C17: data directory not honoured: {db} exists={os.path.exists(db)}, files in the working directory: {stray}; args {c['args']} env {c['env']}",
                                  replay=dict(engine="bin", predicate=pid, config=c)))
        for e in summ.get("errors", []):
            found.append(dict(sig=dict(engine="bin", names=["start"]), what="C17: " + e[:500], replay=dict(engine="bin")))
        nev, ops, _ = count_events(chunks)
        addr_forms = collections.Counter(a.split(":")[0] if not a.startswith("[") else "[::1]" for c in cfgs for a in c["listen"])
        coverage = dict(evaluations=len(cfgs), distinct_nontrivial=len({(c["days"], c["versions"], json.dumps(c["allow"]), len(c["listen"]), json.dumps(sorted(c["env"]))) for c in cfgs}),
                        rule="configurations drawn over listen addresses (1-3; 127.0.0.1 / localhost / [::1]), data directory (nested, not pre-created), allow-list "
                             "(none / one / two ids), snapshot-days, snapshot-versions, each by flag or environment variable; the unmodified executable built from "
                             "/repo is started, driven over every listen address (round robin), SIGKILLed and restarted twice; TLC judges the recorded exchanges with "
                             "the model constants set from the drawn configuration (urgency C12, allow-list C16, history after restart C01/C07, ...); distinct = "
                             "distinct (targets, allow-list, number of addresses, which options came from the environment)",
                        samples=[{"args": c["args"], "env": c["env"]} for c in cfgs[:3]], events_judged=total,
                        outcome_counts={f"{op}/{k}": n for (op, k), n in sorted(ops.items())}, listen_forms=dict(addr_forms), ipv6=ipv6,
                        refused_to_start_with_unbindable_address=refused_start)
        assumptions = ["loopback only; the clock of the child process is shifted by the LD_PRELOAD shim through a file", "state is projected by opening the configured data directory with the SQLite backend"]
        return report(pid, tier, "exploration", found, coverage, assumptions, t0)
    finally:
        shutil.rmtree(scratch, ignore_errors=True)
        shutil.rmtree(wd, ignore_errors=True)


# ---------------------------------------------------------------- dispatch

ENGINES = {}
for _p in SEQ_PROPS:
    ENGINES[_p] = engine_seq
for _p in ("C14", "C15", "C16", "C20"):
    ENGINES[_p] = engine_http
ENGINES["C12"] = engine_urg
ENGINES["C03"] = engine_conc
ENGINES["C05"] = engine_fault
ENGINES["C04"] = engine_crash
ENGINES["C06"] = engine_bytes
ENGINES["C19"] = engine_fix
ENGINES["C17"] = engine_bin
ENGINES["C09"] = engine_lock
ENGINES["C13"] = engine_lock


def cmd_setup():
    build_harness()
    # warm the hook build of the repository's test suite (used by the SEQ checks)
    sh(["cargo", "test", "--workspace", "--offline", "--no-run"], cwd=REPO, timeout=2400,
       env={"RUSTFLAGS": "--cfg tcss_verif --check-cfg cfg(tcss_verif)", "CARGO_TARGET_DIR": os.path.join(BUILD, "hook-target"), "CARGO_NET_OFFLINE": "true"})
    bad = []
    # proof modules extend TLAPS.tla, which ships with the proof system, not with tla2tools
    tlaps_lib = [os.path.dirname(x) for x in glob.glob("/opt/veriftools/tlapm/**/TLAPS.tla", recursive=True)][:1]
    for f in sorted(glob.glob(os.path.join(SPEC, "*.tla"))):
        proof_module = "TLAPS" in open(f).read().split("EXTENDS", 1)[-1].split("\n", 1)[0]
        if proof_module and not tlaps_lib:
            continue
        p = sh(["java"] + (["-DTLA-Library=" + tlaps_lib[0]] if proof_module else []) + ["-cp", TLA_CP, "tla2sany.SANY", f], cwd=SPEC, timeout=300)
        if "Semantic errors" in p.stdout or "Parse Error" in p.stdout or p.returncode != 0 and "error" in p.stdout.lower():
            bad.append(os.path.basename(f))
    if bad:
        print("SANY errors in: " + " ".join(bad))
        return 2
    print("setup ok")
    return 0


def main(argv):
    if not argv:
        print(__doc__ or "usage: check <Cxx> [quick|thorough]")
        return 2
    try:
        if argv[0] == "setup":
            return cmd_setup()
        if argv[0] == "replay":
            import replay
            return replay.main(argv[1:])
        if argv[0] == "selftest":
            import selftest
            return selftest.main(argv[1:])
        pid = argv[0]
        if pid not in ENGINES:
            print(f"no check for {pid}")
            return 2
        return ENGINES[pid](pid, tier_of(argv[1:]))
    except ToolError as e:
        print("TOOL-ERROR: " + str(e)[:6000])
        return 2
    except subprocess.TimeoutExpired as e:
        print("TOOL-ERROR: timeout " + str(e)[:500])
        return 2
    except Exception:
        # a defect of the checker is never a verdict about the code under test
        import traceback
        print("TOOL-ERROR: the checker itself failed:\n" + traceback.format_exc()[-4000:])
        return 2


import subprocess
