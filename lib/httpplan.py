"""HTTP engines planning: grammar cases from TLC (MC_Http), allow-list tours (MC_Allow)."""
import json, os, random
from common import *
import seqplan

LIMIT = 100 * 1024 * 1024


def grammar_cases(maxdev, sizes, chunkings, timeout=600):
    cfg = write_cfg(f"http_{os.getpid()}_{maxdev}_{len(sizes)}.cfg", f"""SPECIFICATION Spec
CONSTANTS
  MaxDev = {maxdev}
  Sizes = {{{", ".join(str(s) for s in sizes)}}}
  Chunkings = {{{", ".join(str(s) for s in chunkings)}}}
INVARIANTS Facts Emit
CHECK_DEADLOCK FALSE
""")
    out = tlc("MC_Http.tla", cfg, workers=4, timeout=timeout)
    if not tlc_ok(out):
        raise ToolError("TLC reports an error on the HTTP grammar model:\n" + ("\n".join(tlc_error_summary(out)) or out[-3000:]))
    cases = [parse_tla_string_tuple(l, "CASE") for l in out.splitlines() if l.startswith('<<"CASE"')]
    return cases, tlc_stats(out)


PREFIX = [
    {"op": "AddVersion", "c": 1, "arg": {"sym": "rnd", "k": 7}},
    {"op": "AddVersion", "c": 1, "arg": {"sym": "latest"}},
    {"op": "AddVersion", "c": 1, "arg": {"sym": "latest"}},
    {"op": "AddSnapshot", "c": 1, "arg": {"sym": "anc", "k": 1}},
    {"op": "AddVersion", "c": 1, "arg": {"sym": "latest"}},
    {"op": "AddVersion", "c": 2, "arg": {"sym": "nil"}},
    {"op": "AddVersion", "c": 2, "arg": {"sym": "latest"}},
    {"op": "AddSnapshot", "c": 2, "arg": {"sym": "latest"}},
]


def case_step(rng, case, c=None):
    route = case["route"]
    if c is None:
        c = rng.choice([1, 1, 1, 2, 2, 3])      # client 3 exists in the run but has no data ("never seen")
    if route == "gcv":
        arg = rng.choice([{"sym": "anc", "k": 1}, {"sym": "anc", "k": 2}, {"sym": "latest"}, {"sym": "nil"}, {"sym": "rnd", "k": 1},
                          {"sym": "base"}])
    elif route == "av":
        arg = rng.choice([{"sym": "latest"}, {"sym": "latest"}, {"sym": "anc", "k": 1}, {"sym": "nil"}])
    else:
        arg = rng.choice([{"sym": "latest"}, {"sym": "anc", "k": 1}, {"sym": "anc", "k": 3}])
    return {"op": "Raw", "c": c, "arg": arg, "hg": case}


def grammar_jobs(rng, cases, run0, backends, per_job=120, prefix="g", allow=None):
    jobs = []
    cases = list(cases)
    rng.shuffle(cases)
    k = 0
    for i in range(0, len(cases), per_job):
        steps = list(PREFIX)
        for c in cases[i:i + per_job]:
            steps.append(case_step(rng, c))
            # a refused upload must not even register a client the server has never seen
            if c["route"] in ("av", "as") and c["method"] == "POST" and c["cid"] == "valid" and c["cls"] == "no":
                steps.append(case_step(rng, c, c=3))
        jobs.append({"id": f"{prefix}{k}", "run": run0 + k, "backend": backends[k % len(backends)], "driver": "http",
                     "cfg": {"days": 2, "versions": 3}, "nclients": 3, "steps": steps, "first_free": 1, "kind": "grammar",
                     "allow": allow})
        k += 1
    return jobs


# request headers the protocol gives no meaning to: a request keeps its class (served / refused) and its response keeps
# every obligation (C14 outcome, C15 refusal, C20 no-store) whatever these say
EXTRA_HEADERS = [
    [["Accept-Encoding", "identity;q=0"]], [["Accept-Encoding", "*;q=0"]], [["Accept-Encoding", "gzip"]], [["Accept-Encoding", "br, gzip;q=0.5, deflate"]],
    [["Accept-Encoding", "compress, identity;q=0"]], [["Accept-Encoding", "zstd"]], [["Accept", "text/html"]], [["Accept", "application/json;q=0"]],
    [["Accept", "application/vnd.taskchampion.snapshot;q=0"]], [["If-None-Match", "*"]], [["If-None-Match", "\"abc\""]],
    [["If-Match", "\"abc\""]], [["If-Modified-Since", "Wed, 21 Oct 2099 07:28:00 GMT"]], [["If-Unmodified-Since", "Thu, 01 Jan 1970 00:00:00 GMT"]],
    [["Range", "bytes=0-0"]], [["If-Range", "\"abc\""], ["Range", "bytes=1-"]], [["Cache-Control", "max-age=3600"]], [["Cache-Control", "only-if-cached"]],
    [["Pragma", "no-cache"]], [["X-HTTP-Method-Override", "DELETE"]], [["X-Forwarded-For", "10.0.0.1"]], [["Forwarded", "for=10.0.0.1;proto=https"]],
    [["Origin", "http://other.example"]], [["Origin", "http://other.example"], ["Access-Control-Request-Method", "POST"]],
    [["Accept-Language", "xx"]], [["Accept-Charset", "utf-16;q=1, *;q=0"]], [["TE", "trailers"]], [["User-Agent", ""]], [["Cookie", "session=1"]],
    [["Authorization", "Basic Og=="]], [["Upgrade-Insecure-Requests", "1"]], [["Prefer", "return=minimal"]], [["Want-Digest", "sha-256"]],
    [["X-Version-Id", "00000000-0000-0000-0000-000000000000"]], [["X-Parent-Version-Id", "00000000-0000-0000-0000-000000000001"]],
    [["X-Snapshot-Request", "urgency=high"]],
]
# in process only (a socket client frames the body itself): a declared length that has nothing to do with the body
EXTRA_HEADERS_INPROC = [[["Content-Length", "18446744073709551615"]], [["Content-Length", "9223372036854775808"]]]


def header_jobs(rng, cases, run0, backends=("inmemory", "sqlite"), prefix="xh", per_job=150, driver="http"):
    """every extra header (combination) on every route: the four protocol requests as served and as refused, the index, unknown routes"""
    base = [c for c in cases if c["chunks"] == 1 and not c.get("abort") and c["pid"] == "valid" and c["ct"] in ("right", "wrong")
            and c["cid"] in ("valid", "absent") and c["size"] in (0, 20)
            and ((c["route"] in ("av", "as") and c["method"] == "POST") or (c["route"] not in ("av", "as") and c["method"] == "GET"))]
    seen, sel = set(), []
    for c in base:
        k = (c["route"], c["cls"], c["cid"])
        if k not in seen:
            seen.add(k)
            sel.append(c)
    xcases = [dict(c, xh=xh) for xh in EXTRA_HEADERS for c in sel]
    if driver == "http":
        # a request that contradicts itself may be served or refused, but never crashes anything (class "either")
        xcases += [dict(c, xh=xh, cls=("either" if c["cls"] == "yes" else c["cls"])) for xh in EXTRA_HEADERS_INPROC for c in sel if c["route"] in ("av", "as")]
    return grammar_jobs(rng, xcases, run0, backends, per_job=per_job, prefix=prefix), len(xcases)


def big_jobs(rng, cases, run0, backend="inmemory", prefix="big"):
    """one job per big-body case: the payload is held several times in memory"""
    jobs = []
    for k, c in enumerate(cases):
        steps = list(PREFIX[:3]) + [case_step(rng, c, c=1)]
        # the served big request is followed by one read so that the stored payload is fetched once more
        steps.append({"op": "GetChildVersion", "c": 1, "arg": {"sym": "anc", "k": 1}})
        jobs.append({"id": f"{prefix}{k}", "run": run0 + k, "backend": backend, "driver": "http",
                     "cfg": {"days": 2, "versions": 3}, "nclients": 3, "steps": steps, "first_free": 1, "kind": "grammar-big"})
    return jobs


def outage_jobs(run0, backends=("inmemory", "sqlite"), prefix="out"):
    """all four endpoints while every storage transaction fails (500s), then recovery"""
    jobs = []
    reqs = [{"op": "AddVersion", "c": 1, "arg": {"sym": "latest"}}, {"op": "GetChildVersion", "c": 1, "arg": {"sym": "anc", "k": 1}},
            {"op": "AddSnapshot", "c": 1, "arg": {"sym": "latest"}}, {"op": "GetSnapshot", "c": 1},
            {"op": "AddVersion", "c": 3, "arg": {"sym": "nil"}}, {"op": "GetSnapshot", "c": 3}]
    for k, b in enumerate(backends):
        steps = list(PREFIX) + [{"op": "FailStorage", "on": True}] + reqs + [{"op": "FailStorage", "on": False}] + reqs
        jobs.append({"id": f"{prefix}{k}", "run": run0 + k, "backend": b, "driver": "http", "cfg": {"days": 2, "versions": 3}, "nclients": 3,
                     "steps": steps, "first_free": 1, "kind": "outage"})
    return jobs
