"""./check replay <path>: re-execute a recorded failing scenario on the current tree and re-judge it."""
import json, os, shutil, sys
from common import *
import engines


def main(argv):
    if not argv:
        print("usage: check replay <path>")
        return 2
    rp = json.load(open(argv[0]))
    pid = rp.get("property")
    eng = rp.get("engine")
    binary = build_harness()
    wd = workdir("replay")
    try:
        if eng == "seq" and rp.get("job"):
            job = rp["job"]
            plan = {"threads": 1, "needs_clock": True, "jobs": [job]}
            summ, files = run_harness_sharded(binary, "seq", plan, wd, nproc=1)
            spec = "TraceLockstep.tla" if job.get("engine") in ("variants", "ni") else "TraceSeq.tla"
            viols, total = judge(files, spec=spec)
        elif eng == "conc" and rp.get("job"):
            job = dict(rp["job"])
            info = rp["round"].get("info", {})
            if job.get("mode") == "dfs" and "choices" in info:
                # replay exactly the recorded choice sequence (a one-round depth-first search)
                job["max_rounds"] = 400
            files, n, _ = engines.run_conc_jobs(binary, [job], wd, nproc=1)
            viols, total = judge(files, spec="TraceConc.tla")
        elif eng == "urg" and rp.get("case"):
            pf, of = os.path.join(wd, "p.json"), os.path.join(wd, "o.ndjson")
            json.dump({"cases": [rp["case"]]}, open(pf, "w"))
            run_harness(binary, ["urg", pf, of])
            viols, total = judge([of], spec="TraceUrg.tla")
        else:
            print(f"replay of engine {eng!r}: re-running the whole check of {pid}")
            return engines.ENGINES[pid](pid, "quick")
        hits = [v for v in viols if pid in v["names"] or (eng in ("crash",) and v["names"])]
        print(f"replayed {total} events/rounds; {len(hits)} violate {pid}")
        if hits:
            print(f"VIOLATION property={pid} replay={argv[0]}")
            return 1
        print(f"OK property={pid} (the recorded scenario no longer violates it)")
        return 0
    finally:
        shutil.rmtree(wd, ignore_errors=True)
