"""./check selftest: negative controls - the specification can fail, and the binding binds."""
import json, os, random, shutil
from common import *
import seqplan, engines


def expect_violation(name, out, needle):
    ok = (not tlc_ok(out)) and (needle in out)
    print(("PASS " if ok else "FAIL ") + name + ("" if ok else "  (TLC did not report " + needle + ")"))
    return ok


def main(argv):
    allok = True
    # ---- 1. model mutants: TLC must report the corresponding property violated
    c = seqplan.MC_CONFIGS["window1"]
    for sl, label in ((6, "window of 6 instead of 5"), (4, "window of 4 instead of 5")):
        cfg = write_cfg(f"self_seq_{sl}.cfg", seqplan.seq_cfg_text(c, emit=False, search_len=sl, invariants="TypeOK", properties="P_C10"))
        out = tlc("MC_Seq.tla", cfg, workers=8, timeout=600)
        allok &= expect_violation(f"model mutant: {label} -> P_C10", out, "P_C10")
    for backend in ("sqlite", "inmemory"):
        cfg = write_cfg(f"self_conc_{backend}.cfg", engines.conc_cfg_text(backend, False, 2, "ShapesNew", "SeedsNew", emit=False))
        out = tlc("MC_Conc.tla", cfg, workers=8, timeout=600)
        allok &= expect_violation(f"model mutant: create transaction does not re-read the client ({backend}) -> Inv_C03", out, "Inv_C03")
    # ---- 2. corrupt one field of a trace recorded from the real code: the judge must reject and name the property
    binary = build_harness()
    wd = workdir("selftest")
    edges, st, cfg = seqplan.model_edges("tiny", workers=4)
    g = seqplan.Graph(edges, "http")
    tours = seqplan.plan_tours(g, 2)[:40]
    jobs = seqplan.tours_to_jobs(tours, g, 2, cfg, "sqlite", "http", 1, "self-", twin=True)
    summ, files = run_harness_sharded(binary, "seq", {"threads": 1, "needs_clock": True, "jobs": jobs}, wd, nproc=4)
    base = os.path.join(wd, "base.ndjson")
    with open(base, "w") as w:
        for f in files:
            w.write(open(f).read())
    viols, total = judge([base])
    real = [v for v in viols if set(v["names"]) - engines.NOTE_NAMES]
    ok = not real
    print(("PASS " if ok else "FAIL ") + f"uncorrupted trace of {total} events is accepted")
    allok &= ok
    lines = open(base).read().splitlines()
    evs = [json.loads(l) for l in lines]

    def corrupt(label, pick, mutate, expect):
        nonlocal allok
        idx = next((i for i, e in enumerate(evs) if pick(e)), None)
        if idx is None:
            print("SKIP " + label)
            return
        e = json.loads(lines[idx])
        mutate(e)
        p = os.path.join(wd, "c.ndjson")
        with open(p, "w") as w:
            w.write("\n".join(lines[:idx] + [json.dumps(e)] + lines[idx + 1:]) + "\n")
        v, _ = judge([p])
        names = set(n for x in v for n in x["names"])
        ok = expect <= names
        print(("PASS " if ok else "FAIL ") + f"corrupted {label}: judge names {sorted(names - engines.NOTE_NAMES)} (expected at least {sorted(expect)})")
        allok &= ok

    corrupt("payload token of a found child", lambda e: e.get("resp", {}).get("kind") == "found",
            lambda e: e["resp"].__setitem__("tok", e["resp"]["tok"] + 1000), {"C06", "C07", "C08"})
    corrupt("parent id of a stored version", lambda e: e["ev"] == "Op" and e["st"][0]["v"],
            lambda e: e["st"][0]["v"][0].__setitem__("parent", 777), {"C01", "C07"})
    corrupt("HTTP status of an accepted version", lambda e: e.get("resp", {}).get("kind") == "ok" and "http" in e,
            lambda e: e["http"].__setitem__("status", 201), {"C14"})
    corrupt("Cache-Control dropped", lambda e: "http" in e, lambda e: (e["http"].__setitem__("ccns", False), e["http"].__setitem__("ncc", 0)), {"C20"})
    corrupt("a read changes the snapshot counter", lambda e: e["req"]["op"] == "GetChildVersion" and e["st"][0]["s"]["has"],
            lambda e: e["st"][0]["s"].__setitem__("since", e["st"][0]["s"]["since"] + 1), {"C18", "C12"})
    corrupt("conflict answer naming a wrong latest", lambda e: e.get("resp", {}).get("kind") == "conflict",
            lambda e: e["resp"].__setitem__("vid", 31337), {"C02"})
    corrupt("urgency of an accepted version", lambda e: e.get("resp", {}).get("kind") == "ok",
            lambda e: e["resp"].__setitem__("urg", "low" if e["resp"]["urg"] != "low" else "high"), {"C12"})
    # ---- 3. the recorded storage calls as actions of SyncStorage: drop one call from real rounds -> must be rejected
    cj = [{"id": "st1", "mode": "dfs", "backend": "sqlite", "instances": "shared", "cfg": {"days": 14, "versions": 100}, "seedname": "Seed2b",
           "seed": engines.CONC_SEEDS["Seed2b"], "reqs": [{"op": "AddVersion", "argk": "latest", "lvl": "http"}, {"op": "GetChildVersion", "argk": "mid", "lvl": "http"}],
           "max_rounds": 30}]
    wd3 = os.path.join(wd, "st")
    os.makedirs(wd3)
    files3, n3, _ = engines.run_conc_jobs(binary, cj, wd3, nproc=1)
    st_ok, _notes = engines.storage_conformance(files3, cj, wd3)
    ok = st_ok["rounds_replayed"] > 0 and st_ok["not_conforming"] == 0
    print(("PASS " if ok else "FAIL ") + f"{st_ok['rounds_replayed']} real rounds replay as behaviours of SyncStorage")
    allok &= ok
    lines3 = [json.loads(l) for l in open(files3[0])]
    for e in lines3:
        e["log"] = [c for c in e["log"] if c[1] != "get_client"]        # the request never read the client record ...
    with open(files3[0], "w") as w:
        for e in lines3:
            w.write(json.dumps(e) + "\n")
    st_bad, _notes = engines.storage_conformance(files3, cj, wd3)
    ok = st_bad["not_conforming"] == st_bad["rounds_replayed"] > 0
    print(("PASS " if ok else "FAIL ") + f"with the get_client calls removed from the logs, {st_bad['not_conforming']} of {st_bad['rounds_replayed']} rounds are rejected by the model")
    allok &= ok
    # ---- 4. the upload layer: the model's negative controls break their invariant; real socket steps replay as behaviours of
    # SyncUpload; with one observation corrupted (stored bytes not the upload's; a request not served) they are rejected
    um = engines.upload_model(wd, "quick")
    ok = um["as-built"]["invariants_hold"] and um["transaction-before-body"]["breaks"] == "NoHolding" and um["per-thread-buffer"]["breaks"] == "Integrity"
    print(("PASS " if ok else "FAIL ") + "SyncUpload: as built holds; transaction-before-body breaks NoHolding; per-thread buffer breaks Integrity")
    allok &= ok
    oj = seqplan.overlap_jobs(random.Random(7), 2, 1)
    wd4 = os.path.join(wd, "up")
    os.makedirs(wd4)
    s4, f4 = run_harness_sharded(binary, "seq", {"threads": 1, "needs_clock": False, "jobs": oj}, wd4, nproc=2, env=engines.SOCK_ENV)
    ust, ubad = engines.upload_conformance(f4, wd4)
    ok = ust["groups"] > 0 and ust["not_conforming"] == 0
    print(("PASS " if ok else "FAIL ") + f"{ust['groups']} groups of overlapping uploads ({ust['lines']} socket steps) replay as behaviours of SyncUpload")
    allok &= ok
    for label, old_, new_ in (("a stored body that is not the upload's", '"obs":"intact"', '"obs":"altered"'), ("a request that was not served during an upload", '"ok":true', '"ok":false')):
        f5 = []
        done = False
        for f in f4:
            txt = open(f).read()
            if not done and old_ in txt:
                txt = txt.replace(old_, new_, 1)
                done = True
            p5 = f + ".corrupt"
            open(p5, "w").write(txt)
            f5.append(p5)
        ust2, ubad2 = engines.upload_conformance(f5, wd4, tag="upload-corrupt")
        ok = done and ust2["not_conforming"] >= 1
        print(("PASS " if ok else "FAIL ") + f"corrupted socket log ({label}): {ust2['not_conforming']} group(s) rejected by SyncUpload")
        allok &= ok
    shutil.rmtree(wd, ignore_errors=True)
    print("selftest " + ("OK" if allok else "FAILED"))
    return 0 if allok else 1
