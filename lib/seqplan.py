"""SEQ engine planning: TLC edge emission -> tours covering every model transition;
seeded random symbolic histories."""
import json, os, random, collections
from common import *

OP_ORDER = {"GetChildVersion": 0, "AddVersion": 1, "AddSnapshot": 2, "GetSnapshot": 3, "NewClient": 4, "Reopen": 5, "Tick": 6}

MC_CONFIGS = {
    # name: (MaxPer, MaxTotal, MaxDay, SnapDays, SnapVersions, SnapToks, Clients, Rnd)
    "tiny":   dict(MaxPer="Per22", MaxTotal=2, MaxDay=1, SnapDays=1, SnapVersions=2, SnapToks="{1}", Clients="{1, 2}", Rnd="{90}"),
    "small":  dict(MaxPer="Per33", MaxTotal=3, MaxDay=1, SnapDays=1, SnapVersions=2, SnapToks="{1}", Clients="{1, 2}", Rnd="{90}"),
    "mid":    dict(MaxPer="Per33", MaxTotal=4, MaxDay=1, SnapDays=1, SnapVersions=2, SnapToks="{1}", Clients="{1, 2}", Rnd="{90}"),
    "mid2":   dict(MaxPer="Per44", MaxTotal=5, MaxDay=2, SnapDays=2, SnapVersions=2, SnapToks="{1, 2}", Clients="{1, 2}", Rnd="{90}"),
    "window": dict(MaxPer="Per71", MaxTotal=7, MaxDay=0, SnapDays=1, SnapVersions=2, SnapToks="{1}", Clients="{1, 2}", Rnd="{90}"),
    "window1": dict(MaxPer="Per7", MaxTotal=7, MaxDay=0, SnapDays=1, SnapVersions=3, SnapToks="{1}", Clients="{1}", Rnd="{90}"),
}

SEQ_INVARIANTS = "TypeOK Inv_Ghost Inv_C01 Inv_C11 Inv_C12 Inv_Fresh Inv_Disjoint Inv_C08pair"
SEQ_PROPERTIES = "P_C02 P_C06 P_C07 P_C08 P_C09 P_C10 P_C11 P_C12 P_C18"


def seq_cfg_text(c, emit=True, search_len=5, invariants=SEQ_INVARIANTS, properties=SEQ_PROPERTIES):
    return f"""SPECIFICATION Spec
CONSTANTS
  Clients = {c['Clients']}
  Rnd = {c['Rnd']}
  MaxPer <- {c['MaxPer']}
  MaxTotal = {c['MaxTotal']}
  MaxDay = {c['MaxDay']}
  SnapDays = {c['SnapDays']}
  SnapVersions = {c['SnapVersions']}
  SnapToks = {c['SnapToks']}
  SearchLen = {search_len}
VIEW view
INVARIANTS {invariants}
PROPERTIES {properties}
{'ACTION_CONSTRAINT EmitEdge' if emit else ''}
CHECK_DEADLOCK FALSE
"""


def canon_state(st):
    out = []
    for cs in st:
        v = sorted(([r["vid"], r["parent"]] for r in cs["v"]))
        s = cs["s"]
        out.append([cs["e"], cs["l"], v, [s["has"], s["vid"], s["since"], s["day"]] if s["has"] else []])
    return out


def canon_allow(a):
    if a is None:
        return None
    return [a["on"], sorted(a["ids"])]


def allow_edges(workers=4, timeout=600):
    """TLC on the allow-list model (SyncAllow over the tiny protocol model)."""
    cfg = write_cfg(f"allow_{os.getpid()}.cfg", """SPECIFICATION ASpec
CONSTANTS
  Clients = {1, 2}
  Rnd = {90}
  MaxPer <- Per22
  MaxTotal = 2
  MaxDay = 0
  SnapDays = 1
  SnapVersions = 2
  SnapToks = {1}
  SearchLen = 5
  Lists <- AllLists
VIEW aview
INVARIANTS TypeOK Inv_Ghost Inv_C01
PROPERTIES P_C16
ACTION_CONSTRAINT EmitEdge
CHECK_DEADLOCK FALSE
""")
    out = tlc("MC_Allow.tla", cfg, workers=workers, timeout=timeout)
    if not tlc_ok(out):
        raise ToolError("TLC reports an error on the allow-list model:\n" + ("\n".join(tlc_error_summary(out)) or out[-3000:]))
    edges = [parse_tla_string_tuple(l, "EDGE") for l in out.splitlines() if l.startswith('<<"EDGE"')]
    return edges, tlc_stats(out), dict(SnapDays=1, SnapVersions=2, Clients="{1, 2}")


def model_edges(name, workers=8, timeout=900):
    """Run TLC on the L2 model; returns (edges, stats, tlc_output_tail)."""
    c = MC_CONFIGS[name]
    cfg = write_cfg(f"seq_{name}_{os.getpid()}.cfg", seq_cfg_text(c))
    out = tlc("MC_Seq.tla", cfg, workers=workers, timeout=timeout)
    if not tlc_ok(out):
        raise ToolError("TLC reports an error on the model itself (MC_Seq/%s):\n%s" % (name, "\n".join(tlc_error_summary(out)) or out[-3000:]))
    edges = []
    for line in out.splitlines():
        if line.startswith('<<"EDGE"'):
            e = parse_tla_string_tuple(line, "EDGE")
            if e is None:
                raise ToolError("unparsable EDGE line: " + line[:300])
            edges.append(e)
    st = tlc_stats(out)
    return edges, st, c


class Graph:
    def __init__(self, edges, level):
        """level: 'lib' or 'http' - which of the level-specific edges to keep."""
        self.nodes = {}
        self.out = collections.defaultdict(list)
        self.edges = []
        drop = "http" if level == "lib" else "lib"
        for e in edges:
            if e["req"]["lvl"] == drop:
                continue
            if "_pk" not in e:
                e["_pk"] = json.dumps([canon_state(e["pre"]), e["d0"], canon_allow(e.get("a0"))])
                e["_qk"] = json.dumps([canon_state(e["post"]), e["d1"], canon_allow(e.get("a1"))])
            pk, qk = e["_pk"], e["_qk"]
            rec = dict(pre=pk, post=qk, req=e["req"], resp=e["resp"], poststate=e["post"], d1=e["d1"], loop=(pk == qk), a1=e.get("a1"))
            rec["id"] = len(self.edges)
            self.edges.append(rec)
            self.out[pk].append(rec)
            self.nodes.setdefault(pk, None)
            self.nodes.setdefault(qk, None)
        self.level = level
        self.has_allow = any("a0" in e for e in edges[:1])

    def init_key(self, nclients):
        absent = [[False, 0, [], []] for _ in range(nclients)]
        return json.dumps([absent, 0, canon_allow({"on": False, "ids": []} if self.has_allow else None)])


def edge_step(e, level):
    req, resp = e["req"], e["resp"]
    op = req["op"]
    if op == "SetAllow":
        return {"op": "SetAllow", "allow": sorted(e["a1"]["ids"]), "exp": {"kind": "reopened", "same": True}}
    if op in ("Tick", "Reopen"):
        st = {"op": op}
        st["exp"] = {"kind": "tick" if op == "Tick" else "reopened", "same": True}
        return st
    st = {"op": op, "c": req["c"], "arg": {"abs": req["arg"]}}
    kind = resp["kind"]
    if level == "http" and kind == "nosuchclient":
        kind = "nf"
    exp = {"kind": kind}
    if kind in ("ok", "conflict", "found", "snap"):
        exp["vid"] = resp["vid"]
    if e["loop"]:
        exp["same"] = True
    else:
        exp["post"] = [dict(e=cs["e"], l=cs["l"], v=[dict(vid=r["vid"], parent=r["parent"]) for r in cs["v"]],
                            s=dict(has=cs["s"]["has"], vid=cs["s"]["vid"], since=cs["s"]["since"], day=cs["s"]["day"]))
                       for cs in e["poststate"]]
    st["exp"] = exp
    return st


def plan_tours(g, nclients, maxlen=600, rng=None):
    """Tours (lists of edges) that together traverse every edge reachable from the initial state."""
    init = g.init_key(nclients)
    # BFS tree from init
    parent = {init: None}
    order = [init]
    dq = collections.deque([init])
    while dq:
        u = dq.popleft()
        for e in g.out.get(u, []):
            v = e["post"]
            if v not in parent:
                parent[v] = e
                order.append(v)
                dq.append(v)
    unvisited = set(e["id"] for e in g.edges if e["pre"] in parent)
    remaining = {u: [e for e in g.out.get(u, []) if e["id"] in unvisited] for u in order}

    def path_to(u):
        p = []
        while parent[u] is not None:
            p.append(parent[u])
            u = parent[u]["pre"]
        return list(reversed(p))

    def loops_sorted(u):
        ls = [e for e in remaining[u] if e["loop"] and e["id"] in unvisited]
        ls.sort(key=lambda e: (e["req"]["c"], e["req"]["arg"], OP_ORDER.get(e["req"]["op"], 9), e["req"]["tok"]))
        return ls

    def gcv_edge(u, c, arg):
        for e in g.out.get(u, []):
            if e["req"]["op"] == "GetChildVersion" and e["req"]["c"] == c and e["req"]["arg"] == arg:
                return e
        return None

    def forward_target(u):
        """nearest node (by BFS forward from u) that still has unvisited edges; returns path of edges"""
        seen = {u: None}
        dq = collections.deque([u])
        while dq:
            x = dq.popleft()
            if x != u and any(e["id"] in unvisited for e in remaining[x]):
                p = []
                while seen[x] is not None:
                    p.append(seen[x])
                    x = seen[x]["pre"]
                return list(reversed(p))
            for e in g.out.get(x, []):
                if e["loop"]:
                    continue
                if e["post"] not in seen:
                    seen[e["post"]] = e
                    dq.append(e["post"])
        return None

    tours = []
    oi = 0
    while unvisited:
        while oi < len(order) and not any(e["id"] in unvisited for e in remaining[order[oi]]):
            oi += 1
        if oi >= len(order):
            break
        start = order[oi]
        tour = []
        for e in path_to(start):
            tour.append(e)
            unvisited.discard(e["id"])
        cur = start
        while len(tour) < maxlen:
            for e in loops_sorted(cur):
                tour.append(e)
                unvisited.discard(e["id"])
            nxt = [e for e in remaining[cur] if (not e["loop"]) and e["id"] in unvisited]
            if nxt:
                e = nxt[0] if rng is None else rng.choice(nxt)
                if e["req"]["op"] == "AddVersion":
                    ge = gcv_edge(cur, e["req"]["c"], e["req"]["arg"])
                    if ge is not None:
                        tour.append(ge)     # GetChildVersion(p) immediately before AddVersion(p)
                tour.append(e)
                unvisited.discard(e["id"])
                cur = e["post"]
                continue
            p = forward_target(cur)
            if p is None:
                break
            for e in p:
                tour.append(e)
                unvisited.discard(e["id"])
                cur = e["post"]
        tours.append(tour)
    return tours


def tours_to_jobs(tours, g, nclients, cfg, backend, driver, run0, prefix, walk=True, twin=False):
    jobs = []
    for k, t in enumerate(tours):
        steps = [edge_step(e, g.level) for e in t]
        if walk:
            for c in range(1, nclients + 1):
                steps.append({"op": "Walk", "c": c, "from": {"sym": "base"}})
                steps.append({"op": "Walk", "c": c, "from": {"sym": "snap"}})
        jobs.append({"id": f"{prefix}{k}", "run": run0 + k, "backend": backend, "driver": driver,
                     "cfg": {"days": cfg["SnapDays"], "versions": cfg["SnapVersions"]},
                     "nclients": nclients, "steps": steps, "first_free": 1000, "kind": "tour", "twin": twin})
    return jobs


# ---------------------------------------------------------------- random symbolic histories

def gen_history(rng, nclients, length, reopen=True, ticks=True, lib=True):
    """A seeded random history whose id arguments are drawn from the adversarial classes."""
    steps = []

    def arg(c):
        r = rng.random()
        other = rng.choice([d for d in range(1, nclients + 1) if d != c]) if nclients > 1 else c
        if r < 0.08:
            return {"sym": "nil"}
        if r < 0.45:
            return {"sym": "latest", "of": c}
        if r < 0.62:
            return {"sym": "anc", "of": c, "k": rng.randint(1, 7)}
        if r < 0.68:
            return {"sym": "first", "of": c}
        if r < 0.74:
            return {"sym": "base", "of": c}
        if r < 0.80:
            return {"sym": "rnd", "k": rng.randint(0, 3)}
        if r < 0.84:
            return {"sym": "fresh"}
        if r < 0.90:
            return {"sym": "latest", "of": other}
        if r < 0.95:
            return {"sym": "anc", "of": other, "k": rng.randint(0, 5)}
        return {"sym": "snap", "of": rng.choice([c, other])}

    if nclients >= 2 and rng.random() < 0.5:
        # a client that roots its history at another client's version, snapshots it, and both go on from there
        a, b = rng.sample(range(1, nclients + 1), 2)
        steps += [{"op": "AddVersion", "c": b, "arg": {"sym": "nil"}}, {"op": "AddVersion", "c": b, "arg": {"sym": "latest", "of": b}},
                  {"op": "AddSnapshot", "c": b, "arg": {"sym": "latest", "of": b}},
                  {"op": "AddVersion", "c": a, "arg": {"sym": "latest", "of": b}},
                  # a snapshot for a version of ANOTHER client that is neither in a's short history nor its root: declined, and b goes on unharmed
                  {"op": "AddSnapshot", "c": a, "arg": {"sym": "first", "of": b}}, {"op": "GetSnapshot", "c": b}, {"op": "GetChildVersion", "c": b, "arg": {"sym": "nil"}},
                  {"op": "AddSnapshot", "c": a, "arg": {"sym": "latest", "of": b}},
                  {"op": "GetSnapshot", "c": b}, {"op": "AddVersion", "c": b, "arg": {"sym": "latest", "of": b}},
                  {"op": "GetChildVersion", "c": b, "arg": {"sym": "anc", "of": b, "k": 1}}, {"op": "AddVersion", "c": a, "arg": {"sym": "latest", "of": a}},
                  {"op": "AddSnapshot", "c": a, "arg": {"sym": "latest", "of": a}}, {"op": "GetSnapshot", "c": b}, {"op": "GetSnapshot", "c": a}]
    for i in range(length):
        c = rng.randint(1, nclients)
        r = rng.random()
        if r < 0.36:
            a = arg(c)
            if rng.random() < 0.5:
                a = {"sym": "latest", "of": c}          # keep chains growing
            if rng.random() < 0.3:
                steps.append({"op": "GetChildVersion", "c": c, "arg": a})   # the C08 pair
            steps.append({"op": "AddVersion", "c": c, "arg": a})
        elif r < 0.40:
            # a client that lost a response sends an earlier accepted (parent, payload) pair once more
            if rng.random() < 0.5:
                steps.append({"op": "AddVersion", "c": c, "replay": rng.randint(0, 4), "arg": {"sym": "nil"}})
            else:
                # ... or the same bytes on another (stale / unknown / nil) parent, then asks for that parent's child
                a = rng.choice([{"sym": "anc", "of": c, "k": rng.randint(1, 3)}, {"sym": "nil"}, {"sym": "first", "of": c}, arg(c)])
                steps.append({"op": "AddVersion", "c": c, "replay": rng.randint(0, 2), "payload_only": True, "arg": a})
                steps.append({"op": "GetChildVersion", "c": c, "arg": a})
        elif r < 0.56:
            steps.append({"op": "GetChildVersion", "c": c, "arg": arg(c)})
        elif r < 0.76:
            a = arg(c)
            if rng.random() < 0.5:
                a = {"sym": "anc", "of": c, "k": rng.randint(0, 6)}
            steps.append({"op": "AddSnapshot", "c": c, "arg": a})
        elif r < 0.86:
            steps.append({"op": "GetSnapshot", "c": c})
        elif r < 0.90:
            steps.append({"op": "Walk", "c": c, "from": {"sym": rng.choice(["base", "snap"])}})
        elif r < 0.93 and lib:
            steps.append({"op": "NewClientIfAbsent", "c": c})
        elif r < 0.96 and reopen:
            steps.append({"op": "Reopen"})
        elif ticks:
            steps.append({"op": "SetDayRel", "by": rng.choice([1, 1, 1, 2, 3, 7, 20])})
    for c in range(1, nclients + 1):
        steps.append({"op": "Walk", "c": c, "from": {"sym": "base"}})
        steps.append({"op": "Walk", "c": c, "from": {"sym": "snap"}})
    return steps


HIST_CFGS = [(1, 2), (2, 2), (2, 3), (3, 5), (0, 0), (1, 1), (14, 100), (3, 1), (7, 4)]


def history_jobs(rng, n, length, run0, backends=("inmemory", "sqlite"), drivers=("lib", "http"), prefix="h"):
    jobs = []
    for k in range(n):
        ncl = rng.choice([2, 2, 3, 4])
        days, vers = rng.choice(HIST_CFGS)
        backend = backends[k % len(backends)]
        driver = drivers[(k // len(backends)) % len(drivers)]
        ln = length if backend == "inmemory" else max(40, length // 2)
        steps = gen_history(rng, ncl, ln, lib=True)
        jobs.append({"id": f"{prefix}{k}", "run": run0 + k, "backend": backend, "driver": driver,
                     "cfg": {"days": days, "versions": vers}, "nclients": ncl, "steps": steps,
                     "first_free": 1, "kind": "history"})
    return jobs


def overlap_jobs(rng, n, run0, backends=("inmemory", "sqlite"), prefix="ov", rounds=14, many=False):
    """Uploads in flight at the same time over real sockets (one in-process HttpServer; 1 worker = every connection on the same
    thread, 2 workers = spread): the pieces of 2-3 chunked uploads are sent interleaved, other requests are served in between.
    The order of completion is the sequential history the judge explains the responses by."""
    jobs = []
    for k in range(n):
        ncl = 3
        steps = [{"op": "AddVersion", "c": 1, "arg": {"sym": "nil"}}, {"op": "AddVersion", "c": 1, "arg": {"sym": "latest", "of": 1}},
                 {"op": "AddVersion", "c": 2, "arg": {"sym": "nil"}}, {"op": "AddSnapshot", "c": 2, "arg": {"sym": "latest", "of": 2}},
                 {"op": "AddVersion", "c": 3, "arg": {"sym": "rnd", "k": 5}}]
        for r in range(rounds):
            ups = []
            # many: now and then six uploads at once (a server that limits what it holds in memory must refuse like any other refusal)
            for _ in range(rng.choice([2, 2, 3]) if not (many and r % 4 == 1) else 6):
                c = rng.randint(1, ncl)
                op = rng.choice(["AddVersion", "AddSnapshot", "AddSnapshot"])
                arg = rng.choice([{"sym": "latest", "of": c}, {"sym": "latest", "of": c}, {"sym": "anc", "of": c, "k": 1}])
                ups.append({"op": op, "c": c, "arg": arg, "gen": {"cls": rng.choice(["random", "zeros", "ascii", "random"]), "size": rng.choice([7, 300, 5000, 70000]),
                                                                  "seed": rng.randint(1, 10**6)}, "pieces": rng.randint(2, 4)})
            order = [i for i, u in enumerate(ups) for _ in range(u["pieces"])]
            rng.shuffle(order)
            # every upload has begun (one piece each) before the first one completes, more often than not
            if rng.random() < 0.7:
                first = list(range(len(ups)))
                rest = list(order)
                for i in first:
                    rest.remove(i)
                order = first + rest
            between = []
            for _ in range(rng.randint(1, 3)):
                c = rng.randint(1, ncl)
                between.append(rng.choice([
                    {"op": "GetChildVersion", "c": c, "arg": {"sym": "anc", "of": c, "k": 1}},
                    {"op": "GetSnapshot", "c": c},
                    {"op": "AddVersion", "c": c, "arg": {"sym": "latest", "of": c}},
                    {"op": "AddSnapshot", "c": c, "arg": {"sym": "latest", "of": c}},
                    {"op": "GetChildVersion", "c": c, "arg": {"sym": "latest", "of": c}}]))
            order.insert(rng.randint(1, max(1, len(order) - 1)), -1)
            steps.append({"op": "Overlap", "c": 0, "uploads": ups, "order": order, "between": between, "pause_ms": rng.choice([5, 15, 30])})
            c = rng.randint(1, ncl)
            steps += [{"op": "GetSnapshot", "c": c}, {"op": "GetChildVersion", "c": c, "arg": {"sym": "anc", "of": c, "k": 1}}]
        for c in range(1, ncl + 1):
            steps += [{"op": "GetSnapshot", "c": c}, {"op": "Walk", "c": c, "from": {"sym": "base"}}]
        jobs.append({"id": f"{prefix}{k}", "run": run0 + k, "backend": backends[k % len(backends)], "driver": "sock", "workers": 1 if k % 4 < 3 else 2,
                     "cfg": {"days": 14, "versions": 100}, "nclients": ncl, "steps": steps, "first_free": 1, "kind": "overlap"})
    return jobs
