/*
 * iofault.so - LD_PRELOAD shim used by the tcss verification harness.
 *
 * 1. Clock: shifts CLOCK_REALTIME (clock_gettime / gettimeofday / time) by an offset in
 *    seconds.  Offset sources, in order: a per-thread offset set through
 *    tcss_clock_set_thread(), a process-wide offset set through tcss_clock_set_global(),
 *    the file named by $TCSS_CLOCK_FILE (decimal seconds, re-read when its mtime changes;
 *    this is how the unmodified server binary is driven).
 *
 * 2. File I/O of the SQLite database (paths containing "taskchampion-sync-server.sqlite3",
 *    the "-shm" file excluded): every pwrite/pread/write/fsync/fdatasync/ftruncate/unlink/
 *    open is numbered.  On request the shim
 *      - logs each call (sequence number, operation, file suffix, offset, length, data in hex)
 *        to the file $TCSS_IO_LOG or the one given to tcss_io_log();
 *      - kills the process (_exit(77)) just BEFORE call number k  (process crash);
 *      - makes call number k fail with a given errno, once or from then on (I/O fault).
 *    Control: environment (TCSS_CRASH_AT, TCSS_FAIL_AT, TCSS_FAIL_ERRNO, TCSS_FAIL_PERSIST,
 *    TCSS_FAIL_OPS) for child processes, or the exported tcss_io_* functions in-process.
 *
 * Nothing here is specific to a property; the harness decides what to do with it.
 */
#define _GNU_SOURCE
#include <dlfcn.h>
#include <errno.h>
#include <fcntl.h>
#include <pthread.h>
#include <stdarg.h>
#include <stdio.h>
#include <stdlib.h>
#include <string.h>
#include <sys/stat.h>
#include <sys/time.h>
#include <sys/types.h>
#include <time.h>
#include <unistd.h>

#define DBNAME "taskchampion-sync-server.sqlite3"

/* ------------------------------------------------------------------ clock */

static __thread long long tl_off;
static __thread int tl_has;
static volatile long long g_off;
static volatile int g_has;
static char *clock_file;
static int clock_file_init;
static long long file_off;
static struct timespec file_mtime;
static pthread_mutex_t clock_mu = PTHREAD_MUTEX_INITIALIZER;

void tcss_clock_set_thread(long long secs) { tl_off = secs; tl_has = 1; }
void tcss_clock_clear_thread(void) { tl_has = 0; }
void tcss_clock_set_global(long long secs) { g_off = secs; g_has = 1; }
int tcss_shim_present(void) { return 1; }

static long long clock_offset(void) {
  if (tl_has) return tl_off;
  if (g_has) return g_off;
  if (!clock_file_init) {
    clock_file = getenv("TCSS_CLOCK_FILE");
    clock_file_init = 1;
  }
  if (clock_file) {
    struct stat sb;
    if (stat(clock_file, &sb) == 0) {
      pthread_mutex_lock(&clock_mu);
      if (sb.st_mtim.tv_sec != file_mtime.tv_sec || sb.st_mtim.tv_nsec != file_mtime.tv_nsec) {
        FILE *f = fopen(clock_file, "r");
        if (f) {
          long long v = 0;
          if (fscanf(f, "%lld", &v) == 1) file_off = v;
          fclose(f);
        }
        file_mtime = sb.st_mtim;
      }
      long long r = file_off;
      pthread_mutex_unlock(&clock_mu);
      return r;
    }
  }
  return 0;
}

int clock_gettime(clockid_t id, struct timespec *ts) {
  static int (*real)(clockid_t, struct timespec *);
  if (!real) real = dlsym(RTLD_NEXT, "clock_gettime");
  int r = real(id, ts);
  if (r == 0 && id == CLOCK_REALTIME) ts->tv_sec += clock_offset();
  return r;
}

int gettimeofday(struct timeval *tv, void *tz) {
  static int (*real)(struct timeval *, void *);
  if (!real) real = dlsym(RTLD_NEXT, "gettimeofday");
  int r = real(tv, tz);
  if (r == 0 && tv) tv->tv_sec += clock_offset();
  return r;
}

time_t time(time_t *t) {
  static time_t (*real)(time_t *);
  if (!real) real = dlsym(RTLD_NEXT, "time");
  time_t r = real(NULL);
  if (r != (time_t)-1) r += clock_offset();
  if (t) *t = r;
  return r;
}

/* ------------------------------------------------------------------ file I/O */

static pthread_mutex_t io_mu = PTHREAD_MUTEX_INITIALIZER;
static long io_seq;            /* number of matching calls so far */
static long crash_at = -1;     /* _exit before this call */
static long fail_at = -1;      /* fail this call */
static int fail_errno = EIO;
static int fail_persist;       /* keep failing after fail_at */
static int fail_after;         /* perform the call, then report failure (effect applied) */
static char fail_ops[128];     /* "" = any op; else comma list e.g. "pwrite,fsync" */
static long delay_at = -1;     /* this call takes delay_ms longer (a slow disk), once */
static long delay_ms = 0;
static int io_log_fd = -1;
static int io_init_done;
static int io_enabled = 1;

static void io_init(void) {
  if (io_init_done) return;
  io_init_done = 1;
  const char *s;
  if ((s = getenv("TCSS_CRASH_AT"))) crash_at = atol(s);
  if ((s = getenv("TCSS_FAIL_AT"))) fail_at = atol(s);
  if ((s = getenv("TCSS_FAIL_ERRNO"))) fail_errno = atoi(s);
  if ((s = getenv("TCSS_FAIL_PERSIST"))) fail_persist = atoi(s);
  if ((s = getenv("TCSS_FAIL_AFTER"))) fail_after = atoi(s);
  if ((s = getenv("TCSS_FAIL_OPS"))) strncpy(fail_ops, s, sizeof(fail_ops) - 1);
  if ((s = getenv("TCSS_IO_LOG"))) {
    static int (*real_open)(const char *, int, ...);
    if (!real_open) real_open = dlsym(RTLD_NEXT, "open");
    io_log_fd = real_open(s, O_WRONLY | O_CREAT | O_APPEND, 0644);
  }
}

void tcss_io_reset(void) {
  delay_at = -1;
  pthread_mutex_lock(&io_mu);
  io_init();
  io_seq = 0; crash_at = -1; fail_at = -1; fail_persist = 0; fail_after = 0; fail_errno = EIO;
  fail_ops[0] = 0;
  pthread_mutex_unlock(&io_mu);
}
long tcss_io_count(void) { return io_seq; }
void tcss_io_enable(int on) { io_enabled = on; }
void tcss_io_fail(long at, int err, int persist, int after) {
  pthread_mutex_lock(&io_mu);
  io_init();
  fail_at = at; fail_errno = err; fail_persist = persist; fail_after = after;
  pthread_mutex_unlock(&io_mu);
}
void tcss_io_crash(long at) { io_init(); crash_at = at; }
void tcss_io_delay(long at, long ms) { io_init(); delay_at = at; delay_ms = ms; }
void tcss_io_log(const char *path) {
  static int (*real_open)(const char *, int, ...);
  if (!real_open) real_open = dlsym(RTLD_NEXT, "open");
  pthread_mutex_lock(&io_mu);
  io_init();
  if (io_log_fd >= 0) { close(io_log_fd); io_log_fd = -1; }
  if (path && *path) io_log_fd = real_open(path, O_WRONLY | O_CREAT | O_APPEND, 0644);
  pthread_mutex_unlock(&io_mu);
}

static char io_dir[1024];
static int io_dir_init;

/* returns the class of a path, or NULL when the path is not ours.
   With $TCSS_IO_DIR set: every file below that directory (the "-shm" file excluded), class = path
   relative to the directory.  Otherwise: the SQLite database files by name (db / wal / journal). */
static const char *classify_path(const char *p) {
  static __thread char rel[1200];
  if (!io_dir_init) {
    const char *d = getenv("TCSS_IO_DIR");
    if (d) { strncpy(io_dir, d, sizeof(io_dir) - 2); size_t n = strlen(io_dir); if (n && io_dir[n - 1] != '/') { io_dir[n] = '/'; io_dir[n + 1] = 0; } }
    io_dir_init = 1;
  }
  size_t lp = strlen(p);
  if (lp >= 4 && strcmp(p + lp - 4, "-shm") == 0) return NULL;
  if (io_dir[0]) {
    size_t n = strlen(io_dir);
    if (strncmp(p, io_dir, n) != 0 || p[n] == 0) return NULL;
    strncpy(rel, p + n, sizeof(rel) - 1);
    for (char *c = rel; *c; c++) if (*c == ' ') *c = '_';
    return rel;
  }
  const char *q = strstr(p, DBNAME);
  if (!q) return NULL;
  q += strlen(DBNAME);
  if (*q == 0) return "db";
  if (strncmp(q, "-wal", 4) == 0) return "wal";
  if (strncmp(q, "-journal", 8) == 0) return "journal";
  return "other";
}

static const char *classify_fd(int fd) {
  char link[64], path[4096];
  snprintf(link, sizeof link, "/proc/self/fd/%d", fd);
  ssize_t n = readlink(link, path, sizeof(path) - 1);
  if (n <= 0) return NULL;
  path[n] = 0;
  return classify_path(path);
}

static int op_selected(const char *op) {
  if (!fail_ops[0]) return 1;
  return strstr(fail_ops, op) != NULL;
}

/* decision for one matching call: 0 = proceed, 1 = fail before, 2 = perform then fail */
static int io_gate(const char *op, const char *cls, long long off, long long len,
                   const void *data, long *seq_out) {
  static ssize_t (*real_write)(int, const void *, size_t);
  if (!real_write) real_write = dlsym(RTLD_NEXT, "write");
  if (!io_enabled) return 0;
  pthread_mutex_lock(&io_mu);
  io_init();
  long seq = ++io_seq;
  if (seq_out) *seq_out = seq;
  if (crash_at >= 0 && seq == crash_at) {
    _exit(77);
  }
  int decision = 0;
  if (fail_at >= 0 && op_selected(op) && (seq == fail_at || (fail_persist && seq > fail_at)))
    decision = fail_after ? 2 : 1;
  if (io_log_fd >= 0) {
    char head[256];
    int n = snprintf(head, sizeof head, "%ld %s %s %lld %lld %d ", seq, op, cls, off, len, decision);
    real_write(io_log_fd, head, n);
    if (data && len > 0 && decision != 1) {
      static const char hx[] = "0123456789abcdef";
      size_t m = (size_t)len;
      char *buf = malloc(m * 2 + 1);
      if (buf) {
        const unsigned char *d = data;
        for (size_t i = 0; i < m; i++) { buf[2 * i] = hx[d[i] >> 4]; buf[2 * i + 1] = hx[d[i] & 15]; }
        real_write(io_log_fd, buf, m * 2);
        free(buf);
      }
    } else {
      real_write(io_log_fd, "-", 1);
    }
    real_write(io_log_fd, "\n", 1);
  }
  int slow = (delay_at >= 0 && seq == delay_at) ? (int)delay_ms : 0;
  if (slow) delay_at = -1;
  pthread_mutex_unlock(&io_mu);
  if (slow) {
    static int (*real_nanosleep)(const struct timespec *, struct timespec *);
    if (!real_nanosleep) real_nanosleep = dlsym(RTLD_NEXT, "nanosleep");
    struct timespec ts = { slow / 1000, (long)(slow % 1000) * 1000000L };
    real_nanosleep(&ts, NULL);
  }
  return decision;
}

#define FAIL_RET(v) do { errno = fail_errno; return (v); } while (0)

ssize_t pwrite64(int fd, const void *buf, size_t n, off64_t off) {
  static ssize_t (*real)(int, const void *, size_t, off64_t);
  if (!real) real = dlsym(RTLD_NEXT, "pwrite64");
  const char *cls = classify_fd(fd);
  if (cls) {
    int d = io_gate("pwrite", cls, off, n, buf, NULL);
    if (d == 1) FAIL_RET(-1);
    ssize_t r = real(fd, buf, n, off);
    if (d == 2) FAIL_RET(-1);
    return r;
  }
  return real(fd, buf, n, off);
}
ssize_t pwrite(int fd, const void *buf, size_t n, off_t off) { return pwrite64(fd, buf, n, off); }

ssize_t write(int fd, const void *buf, size_t n) {
  static ssize_t (*real)(int, const void *, size_t);
  if (!real) real = dlsym(RTLD_NEXT, "write");
  if (fd > 2) {
    const char *cls = classify_fd(fd);
    if (cls) {
      off_t off = lseek(fd, 0, SEEK_CUR);
      int d = io_gate("pwrite", cls, off, n, buf, NULL);
      if (d == 1) FAIL_RET(-1);
      ssize_t r = real(fd, buf, n);
      if (d == 2) FAIL_RET(-1);
      return r;
    }
  }
  return real(fd, buf, n);
}

ssize_t pread64(int fd, void *buf, size_t n, off64_t off) {
  static ssize_t (*real)(int, void *, size_t, off64_t);
  if (!real) real = dlsym(RTLD_NEXT, "pread64");
  const char *cls = classify_fd(fd);
  if (cls) {
    int d = io_gate("pread", cls, off, n, NULL, NULL);
    if (d) FAIL_RET(-1);
  }
  return real(fd, buf, n, off);
}
ssize_t pread(int fd, void *buf, size_t n, off_t off) { return pread64(fd, buf, n, off); }

int fsync(int fd) {
  static int (*real)(int);
  if (!real) real = dlsym(RTLD_NEXT, "fsync");
  const char *cls = classify_fd(fd);
  if (cls) {
    int d = io_gate("fsync", cls, 0, 0, NULL, NULL);
    if (d == 1) FAIL_RET(-1);
    int r = real(fd);
    if (d == 2) FAIL_RET(-1);
    return r;
  }
  return real(fd);
}

int fdatasync(int fd) {
  static int (*real)(int);
  if (!real) real = dlsym(RTLD_NEXT, "fdatasync");
  const char *cls = classify_fd(fd);
  if (cls) {
    int d = io_gate("fsync", cls, 0, 0, NULL, NULL);
    if (d == 1) FAIL_RET(-1);
    int r = real(fd);
    if (d == 2) FAIL_RET(-1);
    return r;
  }
  return real(fd);
}

int ftruncate64(int fd, off64_t len) {
  static int (*real)(int, off64_t);
  if (!real) real = dlsym(RTLD_NEXT, "ftruncate64");
  const char *cls = classify_fd(fd);
  if (cls) {
    int d = io_gate("ftruncate", cls, len, 0, NULL, NULL);
    if (d == 1) FAIL_RET(-1);
    int r = real(fd, len);
    if (d == 2) FAIL_RET(-1);
    return r;
  }
  return real(fd, len);
}
int ftruncate(int fd, off_t len) { return ftruncate64(fd, len); }

int unlink(const char *path) {
  static int (*real)(const char *);
  if (!real) real = dlsym(RTLD_NEXT, "unlink");
  const char *cls = classify_path(path);
  if (cls) {
    int d = io_gate("unlink", cls, 0, 0, NULL, NULL);
    if (d == 1) FAIL_RET(-1);
    int r = real(path);
    if (d == 2) FAIL_RET(-1);
    return r;
  }
  return real(path);
}

int rename(const char *from, const char *to) {
  static int (*real)(const char *, const char *);
  if (!real) real = dlsym(RTLD_NEXT, "rename");
  const char *c1 = classify_path(from);
  if (c1) {
    char a[1200]; strncpy(a, c1, sizeof(a) - 1); a[sizeof(a) - 1] = 0;
    const char *c2 = classify_path(to);
    char both[2500];
    snprintf(both, sizeof both, "%s>%s", a, c2 ? c2 : "?");
    int d = io_gate("rename", both, 0, 0, NULL, NULL);
    if (d == 1) FAIL_RET(-1);
    int r = real(from, to);
    if (d == 2) FAIL_RET(-1);
    return r;
  }
  return real(from, to);
}

int mkdir(const char *path, mode_t mode) {
  static int (*real)(const char *, mode_t);
  if (!real) real = dlsym(RTLD_NEXT, "mkdir");
  const char *cls = classify_path(path);
  if (cls) {
    int d = io_gate("mkdir", cls, 0, 0, NULL, NULL);
    if (d == 1) FAIL_RET(-1);
  }
  return real(path, mode);
}

static int open_common(const char *which, int dirfd, const char *path, int flags, mode_t mode) {
  static int (*real_openat)(int, const char *, int, ...);
  if (!real_openat) real_openat = dlsym(RTLD_NEXT, "openat");
  const char *cls = path ? classify_path(path) : NULL;
  if (cls) {
    int d = io_gate("open", cls, flags, 0, NULL, NULL);
    if (d == 1) FAIL_RET(-1);
  }
  (void)which;
  return real_openat(dirfd, path, flags, mode);
}

int open(const char *path, int flags, ...) {
  mode_t mode = 0;
  if (flags & (O_CREAT | O_TMPFILE)) { va_list ap; va_start(ap, flags); mode = va_arg(ap, mode_t); va_end(ap); }
  return open_common("open", AT_FDCWD, path, flags, mode);
}
int open64(const char *path, int flags, ...) {
  mode_t mode = 0;
  if (flags & (O_CREAT | O_TMPFILE)) { va_list ap; va_start(ap, flags); mode = va_arg(ap, mode_t); va_end(ap); }
  return open_common("open64", AT_FDCWD, path, flags | O_LARGEFILE, mode);
}
int openat(int dirfd, const char *path, int flags, ...) {
  mode_t mode = 0;
  if (flags & (O_CREAT | O_TMPFILE)) { va_list ap; va_start(ap, flags); mode = va_arg(ap, mode_t); va_end(ap); }
  return open_common("openat", dirfd, path, flags, mode);
}
int openat64(int dirfd, const char *path, int flags, ...) {
  mode_t mode = 0;
  if (flags & (O_CREAT | O_TMPFILE)) { va_list ap; va_start(ap, flags); mode = va_arg(ap, mode_t); va_end(ap); }
  return open_common("openat64", dirfd, path, flags | O_LARGEFILE, mode);
}

/* ------------------------------------------------------------------ lock contention
 * "Somebody else holds the write lock": the next n attempts to take the WAL write lock
 * (fcntl F_SETLK / F_OFD_SETLK, F_WRLCK, byte 120 of the "-shm" file) fail with EAGAIN, as
 * they do while another connection or process is inside a write transaction; after that
 * the lock is free again.  The sleep (nanosleep / usleep) that follows a refused attempt on
 * the same thread returns at once: SQLite's busy handler counts its waiting time from the
 * delays it asked for, not from the clock, so a contention period of many seconds costs no
 * wall-clock time.
 */
static __thread int tl_lock_refused;
static volatile long lock_busy_left;
static volatile long lock_busy_seen;
static volatile int lock_busy_armed;

void tcss_lock_busy(long n) { lock_busy_left = n; lock_busy_seen = 0; lock_busy_armed = n > 0; }
long tcss_lock_busy_seen(void) { return lock_busy_seen; }

static int is_shm_fd(int fd) {
  char link[64], path[4096];
  snprintf(link, sizeof link, "/proc/self/fd/%d", fd);
  ssize_t n = readlink(link, path, sizeof(path) - 1);
  if (n <= 4) return 0;
  path[n] = 0;
  return strstr(path, DBNAME "-shm") != NULL;
}

static int lock_gate(int fd, int cmd, void *arg) {
  if (!lock_busy_armed || !arg) return 0;
  if (cmd != F_SETLK
#ifdef F_OFD_SETLK
      && cmd != F_OFD_SETLK
#endif
  ) return 0;
  struct flock *fl = arg;
  if (fl->l_type != F_WRLCK || fl->l_start != 120 || !is_shm_fd(fd)) return 0;
  pthread_mutex_lock(&io_mu);
  int hit = 0;
  if (lock_busy_left > 0) { lock_busy_left--; lock_busy_seen++; hit = 1; tl_lock_refused = 1; }
  pthread_mutex_unlock(&io_mu);
  return hit;
}

int fcntl(int fd, int cmd, ...) {
  static int (*real)(int, int, ...);
  if (!real) real = dlsym(RTLD_NEXT, "fcntl");
  va_list ap; va_start(ap, cmd); void *arg = va_arg(ap, void *); va_end(ap);
  if (lock_gate(fd, cmd, arg)) { errno = EAGAIN; return -1; }
  return real(fd, cmd, arg);
}

int fcntl64(int fd, int cmd, ...) {
  static int (*real)(int, int, ...);
  if (!real) { real = dlsym(RTLD_NEXT, "fcntl64"); if (!real) real = dlsym(RTLD_NEXT, "fcntl"); }
  va_list ap; va_start(ap, cmd); void *arg = va_arg(ap, void *); va_end(ap);
  if (lock_gate(fd, cmd, arg)) { errno = EAGAIN; return -1; }
  return real(fd, cmd, arg);
}

int usleep(useconds_t us) {
  static int (*real)(useconds_t);
  if (!real) real = dlsym(RTLD_NEXT, "usleep");
  if (tl_lock_refused) { tl_lock_refused = 0; return 0; }
  return real(us);
}

int nanosleep(const struct timespec *req, struct timespec *rem) {
  static int (*real)(const struct timespec *, struct timespec *);
  if (!real) real = dlsym(RTLD_NEXT, "nanosleep");
  if (tl_lock_refused) { tl_lock_refused = 0; return 0; }
  return real(req, rem);
}
