------------------------------- MODULE BigNat -------------------------------
(***************************************************************************)
(* Natural numbers beyond TLC's 32-bit integers: little-endian sequences   *)
(* of limbs in base B (2^15 in traces; a tiny base in the self-test), no   *)
(* trailing zero limb; <<>> is zero.  Only what the urgency rule of C12    *)
(* needs: comparison, addition, halving.                                   *)
(***************************************************************************)
EXTENDS Integers, Sequences

RECURSIVE BCmpFrom(_, _, _)
(* compare limbs i..1 of equally long a, b: -1, 0, 1 *)
BCmpFrom(a, b, i) ==
  IF i = 0 THEN 0
  ELSE IF a[i] < b[i] THEN -1
  ELSE IF a[i] > b[i] THEN 1
  ELSE BCmpFrom(a, b, i - 1)

BCmp(a, b) ==
  IF Len(a) < Len(b) THEN -1
  ELSE IF Len(a) > Len(b) THEN 1
  ELSE BCmpFrom(a, b, Len(a))

BGe(a, b) == BCmp(a, b) >= 0

RECURSIVE BAddFrom(_, _, _, _, _)
BAddFrom(B, a, b, i, carry) ==
  IF i > Len(a) /\ i > Len(b)
    THEN IF carry = 0 THEN <<>> ELSE <<carry>>
  ELSE LET x == (IF i <= Len(a) THEN a[i] ELSE 0) + (IF i <= Len(b) THEN b[i] ELSE 0) + carry
       IN <<x % B>> \o BAddFrom(B, a, b, i + 1, x \div B)

BAdd(B, a, b) == BAddFrom(B, a, b, 1, 0)

RECURSIVE BTrim(_)
BTrim(a) == IF a # <<>> /\ a[Len(a)] = 0 THEN BTrim(SubSeq(a, 1, Len(a) - 1)) ELSE a

(* floor(a / 2): process limbs from the most significant one *)
RECURSIVE BHalfFrom(_, _, _, _)
BHalfFrom(B, a, i, rem) ==
  IF i = 0 THEN <<>>
  ELSE LET x == rem * B + a[i] IN BHalfFrom(B, a, i - 1, x % 2) \o <<x \div 2>>

BHalf(B, a) == BTrim(BHalfFrom(B, a, Len(a), 0))

RECURSIVE ToBig(_, _)
ToBig(B, n) == IF n = 0 THEN <<>> ELSE <<n % B>> \o ToBig(B, n \div B)

RECURSIVE FromBig(_, _)
FromBig(B, a) == IF a = <<>> THEN 0 ELSE a[1] + B * FromBig(B, SubSeq(a, 2, Len(a)))

(* C12 on BigNat: thresholds t and t + floor(t/2); returns 0 none, 1 low, 2 high.
   m is [neg, mag]; a negative measure is below every non-negative threshold *)
BUrg3(B, t, m) ==
  IF m.neg THEN 0
  ELSE IF BGe(m.mag, BAdd(B, t, BHalf(B, t))) THEN 2
  ELSE IF BGe(m.mag, t) THEN 1
  ELSE 0
=============================================================================
