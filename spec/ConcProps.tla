----------------------------- MODULE ConcProps -----------------------------
(***************************************************************************)
(* C03 as a predicate over ONE ROUND of overlapping requests, usable on    *)
(* the model's variables (SyncStorage) and on a round recorded from the    *)
(* real code (TraceConc):                                                  *)
(*   seedcs  state of the client before the round                          *)
(*   reqs    r -> [op, c, arg, lvl, tok, vid]  (tok: payload token of the  *)
(*           upload; vid: the id the server issued to r if it accepted it, *)
(*           else 0)                                                       *)
(*   resps   r -> response record                                          *)
(*   before  set of pairs <<r, s>>: r was answered before s was invoked    *)
(*   final   state of the client after the round                           *)
(* The round is linearizable iff the units of the requests can be applied  *)
(* one at a time, in an order that respects `before`, reproducing every    *)
(* response (by class) and ending in `final`.  Units: every request is one *)
(* unit, except that an HTTP AddVersion for a client unknown at the start  *)
(* of the round is two - create the (empty) client record, then add - the  *)
(* documented three-transaction request of server/src/api/add_version.rs.  *)
(***************************************************************************)
EXTENDS Integers, Sequences, FiniteSets, SyncImpl

KindClass(k) == IF k = "nosuchclient" THEN "nf" ELSE k

UnitApply(cfg, cs, q, u) ==
  IF u[2] = "c" THEN [cs |-> IF cs.exists THEN cs ELSE StNewClient, resp |-> R0("created")]
  ELSE CASE q.op = "AddVersion" ->
              IF q.lvl = "http" THEN ApplyHttpAddVersion(cfg, cs, q.arg, q.tok, q.vid, 0)
                                ELSE ApplyAddVersion(cfg, cs, q.arg, q.tok, q.vid, 0)
         [] q.op = "GetChildVersion" -> [cs |-> cs, resp |-> ApplyGetChildVersion(cs, q.arg)]
         [] q.op = "AddSnapshot"     -> ApplyAddSnapshot(5, cs, q.arg, q.tok, 0)
         [] q.op = "GetSnapshot"     -> [cs |-> cs, resp |-> ApplyGetSnapshot(cs)]
         [] OTHER                    -> [cs |-> cs, resp |-> R0("none")]

(* does the sequential answer o match the observed answer x?  (urgency is C12's business) *)
RespMatches(o, x) ==
  /\ KindClass(o.kind) = KindClass(x.kind)
  /\ o.kind \in {"ok", "conflict", "found", "snap"} => o.vid = x.vid
  /\ o.kind = "found" => (o.parent = x.parent /\ o.tok = x.tok)
  /\ o.kind = "snap" => o.tok = x.tok

UnitsOf(seedcs, reqs) ==
  {<<r, "m">> : r \in DOMAIN reqs}
  \cup {<<r, "c">> : r \in {s \in DOMAIN reqs : reqs[s].op = "AddVersion" /\ reqs[s].lvl = "http" /\ ~seedcs.exists}}

RECURSIVE LinFrom(_, _, _, _, _, _, _)
LinFrom(cfg, cs, rem, reqs, resps, before, final) ==
  IF rem = {} THEN cs = final
  ELSE \E u \in rem :
         /\ \A s \in DOMAIN reqs : <<s, u[1]>> \in before => <<s, "m">> \notin rem    \* real-time order
         /\ u[2] = "m" => <<u[1], "c">> \notin rem                                    \* create before add
         /\ LET o == UnitApply(cfg, cs, reqs[u[1]], u) IN
              /\ u[2] = "m" => RespMatches(o.resp, resps[u[1]])
              /\ LinFrom(cfg, o.cs, rem \ {u}, reqs, resps, before, final)

Linearizable(cfg, seedcs, reqs, resps, before, final) ==
  LinFrom(cfg, seedcs, UnitsOf(seedcs, reqs), reqs, resps, before, final)

ChainOK(cs) == /\ \A v, w \in cs.versions : (v.parent = w.parent \/ v.vid = w.vid) => v = w
               /\ (cs.latest = Nil) <=> (cs.versions = {})
               /\ (cs.versions # {} =>
                     \E b \in {v.parent : v \in cs.versions} \ Vids(cs) :
                        LET w == WalkFrom(cs.versions, b, Cardinality(cs.versions) + 1)
                        IN Len(w) = Cardinality(cs.versions) /\ w[Len(w)].vid = cs.latest)

(***************************************************************************)
(* C05: ONE request during which a storage step failed.                    *)
(*  - the answer is an error, or - if the failure did not matter - the     *)
(*    normal answer; a success is only ever sent when the change is        *)
(*    committed (final = the state after the request);                     *)
(*  - after an error the state is exactly as before the request, or        *)
(*    exactly as after it (only the acknowledgement was lost), or - for    *)
(*    the three-transaction HTTP AddVersion of an unknown client - the     *)
(*    empty client record exists;                                          *)
(*  - follow-up requests are then served normally (sequentially correct    *)
(*    answers from that state, no error: the lock was released).           *)
(***************************************************************************)
RECURSIVE FollowOK(_, _, _, _)
FollowOK(cfg, cs, follow, i) ==
  IF i > Len(follow) THEN TRUE
  ELSE LET f == follow[i]
           o == UnitApply(cfg, cs, f.req, <<1, "m">>)
       IN /\ f.resp.kind \notin {"error", "panic", "timeout", "none"}
          /\ RespMatches(o.resp, f.resp)
          /\ FollowOK(cfg, o.cs, follow, i + 1)

(* mayCommit: the failing step may have been the commit itself after it took effect (or the fault was
   injected below the storage trait, where that cannot be told) - only then may an error leave the
   state as after the request *)
C05_Round(cfg, seedcs, q, resp, final, follow, mayCommit) ==
  LET o == UnitApply(cfg, seedcs, q, <<1, "m">>) IN
  /\ resp.kind \notin {"panic", "timeout", "none"}
  /\ resp.kind # "error" => (RespMatches(o.resp, resp) /\ final = o.cs)
  /\ resp.kind = "error" =>
        \/ final = seedcs
        \* only the acknowledgement was lost (the id the server chose is the new latest)
        \/ (mayCommit /\ final = o.cs)
        \/ (mayCommit /\ final = UnitApply(cfg, seedcs, [q EXCEPT !.vid = final.latest], <<1, "m">>).cs)
        \/ (q.op = "AddVersion" /\ q.lvl = "http" /\ final = [seedcs EXCEPT !.exists = TRUE])
  /\ FollowOK(cfg, final, follow, 1)

(* C03 for a fault-free round *)
C03_Round(cfg, seedcs, reqs, resps, before, final) ==
  /\ \A r \in DOMAIN reqs : resps[r].kind \notin {"error", "panic", "timeout", "none"}   \* nobody is answered with a server error
  /\ Linearizable(cfg, seedcs, reqs, resps, before, final)
  /\ ChainOK(final)                                                                      \* no fork, no orphan
=============================================================================
