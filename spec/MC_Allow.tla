------------------------------ MODULE MC_Allow ------------------------------
EXTENDS SyncAllow, Json

StJson(s) == [c \in Clients |-> [e |-> s[c].exists, l |-> s[c].latest, v |-> s[c].versions, s |-> s[c].snap]]
AlJson(a) == [on |-> a.on, ids |-> a.ids]

EmitEdge ==
  PrintT(<<"EDGE", ToJson([pre  |-> StJson(st),  d0 |-> day, a0 |-> AlJson(allow),
                           req  |-> ex'.req,     resp |-> ex'.resp,
                           post |-> StJson(st'), d1 |-> day', a1 |-> AlJson(allow')])>>)

Per22 == <<2, 2>>
Per21 == <<2, 1>>
AllLists == SUBSET Clients
=============================================================================
