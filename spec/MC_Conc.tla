------------------------------ MODULE MC_Conc ------------------------------
(* TLC front end for SyncStorage: request shapes, seed scripts, and emission *)
(* of one JSON line per terminal state (= one complete schedule).            *)
EXTENDS SyncStorage, Json

Q(o, a, l, n) == [op |-> o, argk |-> a, lvl |-> l, ord |-> n]

ShapesHttp == { Q("AddVersion", "latest", "http", 1), Q("AddVersion", "nil", "http", 2), Q("AddVersion", "old", "http", 3),
                Q("GetChildVersion", "latest", "http", 4), Q("GetChildVersion", "nil", "http", 5), Q("GetChildVersion", "mid", "http", 6),
                Q("AddSnapshot", "latest", "http", 7), Q("AddSnapshot", "mid", "http", 8),
                Q("GetSnapshot", "nil", "http", 9) }
ShapesLib  == { Q("AddVersion", "latest", "lib", 1), Q("AddVersion", "old", "lib", 3),
                Q("GetChildVersion", "latest", "lib", 4), Q("GetChildVersion", "mid", "lib", 6),
                Q("AddSnapshot", "latest", "lib", 7), Q("AddSnapshot", "mid", "lib", 8),
                Q("GetSnapshot", "nil", "lib", 9) }
ShapesNew  == { Q("AddVersion", "nil", "http", 1), Q("AddVersion", "rnd", "http", 2), Q("GetChildVersion", "nil", "http", 5),
                Q("GetSnapshot", "nil", "http", 9) }
ShapesAV   == { Q("AddVersion", "latest", "http", 1), Q("AddVersion", "nil", "http", 2) }

S(o, a) == [op |-> o, arg |-> a]
Seed0 == <<>>
Seed1 == <<S("NewClient", 0)>>
Seed2 == <<S("AddVersion", 0)>>
Seed2b == <<S("AddVersion", 0), S("AddVersion", 101)>>
Seed3 == <<S("AddVersion", 0), S("AddVersion", 101), S("AddSnapshot", 101)>>
Seed4 == <<S("AddVersion", 90), S("AddVersion", 101), S("AddVersion", 102), S("AddSnapshot", 102), S("AddVersion", 103)>>
Seed6 == <<S("AddVersion", 0), S("AddVersion", 101), S("AddVersion", 102), S("AddVersion", 103), S("AddVersion", 104), S("AddVersion", 105)>>
SeedsAll   == {Seed0, Seed1, Seed2, Seed2b, Seed3, Seed4, Seed6}
SeedsSmall == {Seed0, Seed2, Seed2b, Seed3}
SeedsNew   == {Seed0, Seed1}

EmitDone ==
  AllDone => PrintT(<<"SCHED", ToJson([seed |-> seed, reqs |-> [r \in RIds |-> ReqOf(r)], shapes |-> rd,
                                       sched |-> hist, resps |-> resp, db |-> [e |-> db.exists, l |-> db.latest, v |-> db.versions, s |-> db.snap],
                                       faults |-> faults, crashed |-> crashed])>>)
=============================================================================
