------------------------------ MODULE MC_Http ------------------------------
(* TLC front end for SyncHttp: enumerates the request grammar completely    *)
(* (each grammar request is one initial state) and prints every request     *)
(* with its class as a JSON line for the harness; checks the static facts.  *)
EXTENDS SyncHttp, TLC, Json

CONSTANTS MaxDev, Sizes, Chunkings

VARIABLE q
Init == q \in Grammar(MaxDev, Sizes, Chunkings)
Next == UNCHANGED q
Spec == Init /\ [][Next]_q

Emit == PrintT(<<"CASE", ToJson([route |-> q.route, method |-> q.method, cid |-> q.cid, pid |-> q.pid,
                                 ct |-> q.ct, size |-> q.size, chunks |-> q.chunks, abort |-> q.abort, cls |-> Class(q)])>>)

(* static facts of the encoding and of the classifier *)
Facts ==
  /\ EncodeSeparates
  /\ \A r \in Routes : IsProto(r) => Class(Baseline(r)) = "yes"
  /\ Class(q) \in {"yes", "no", "either", "other"}
=============================================================================
