------------------------------ MODULE MC_Seq ------------------------------
(* TLC front end for SyncProtocol: bounded constants, edge emission for the *)
(* spec -> implementation replay (every explored transition is printed     *)
(* once as a JSON line by the action constraint EmitEdge).                  *)
EXTENDS SyncProtocol, Json

StJson(s) == [c \in Clients |-> [e |-> s[c].exists, l |-> s[c].latest, v |-> s[c].versions, s |-> s[c].snap]]

EmitEdge ==
  PrintT(<<"EDGE", ToJson([pre  |-> StJson(st),  d0 |-> day,
                           req  |-> ex'.req,     resp |-> ex'.resp,
                           post |-> StJson(st'), d1 |-> day'])>>)

NoEmit == TRUE

Per31 == <<3, 1>>
Per32 == <<3, 2>>
Per33 == <<3, 3>>
Per22 == <<2, 2>>
Per42 == <<4, 2>>
Per44 == <<4, 4>>
Per61 == <<6, 1>>
Per71 == <<7, 1>>
Per66 == <<6, 6>>
Per7 == <<7>>
Per8 == <<8>>
=============================================================================
