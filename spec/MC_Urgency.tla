----------------------------- MODULE MC_Urgency -----------------------------
(***************************************************************************)
(* C12, design level.  For small targets and measures TLC checks           *)
(*  - the implementation-shaped thresholds (t*3)/2 of SyncImpl against the *)
(*    declarative t + floor(t/2) of SyncProps,                             *)
(*  - high threshold >= low threshold, urgency monotone in either measure, *)
(*  - BigNat (used to judge u32 / i64 extremes recorded from the code)     *)
(*    against native arithmetic, exhaustively for a tiny base.             *)
(* Each (targets, age, since, has) combination is one initial state.       *)
(***************************************************************************)
EXTENDS Integers, Sequences, FiniteSets, TLC, SyncImpl, BigNat

CONSTANTS MaxT, MaxM, TB     \* targets 0..MaxT, measures 0..MaxM, tiny BigNat base

VARIABLE s
Init == s \in [td : 0..MaxT, tv : 0..MaxT, age : (0 - 2)..MaxM, since : 0..MaxM, has : BOOLEAN]
Next == UNCHANGED s
Spec == Init /\ [][Next]_s

Cfg0 == [days |-> s.td, versions |-> s.tv]
Snap0 == [has |-> s.has, vid |-> 1, tok |-> 1, since |-> s.since, day |-> 0]
Cs0 == [exists |-> TRUE, latest |-> 1, versions |-> {}, snap |-> IF s.has THEN Snap0 ELSE NoSnap]
UrgNum(u) == IF u = "high" THEN 2 ELSE IF u = "low" THEN 1 ELSE 0

ImplAgrees == ImplUrgency(Cfg0, Cs0, s.age) = Urgency(Cfg0, Cs0.snap, s.age)

Thresholds == /\ s.td + (s.td \div 2) >= s.td
              /\ (s.td * 3) \div 2 = s.td + (s.td \div 2)

Monotone ==
  /\ s.age < MaxM => UrgNum(Urgency(Cfg0, Cs0.snap, s.age + 1)) >= UrgNum(Urgency(Cfg0, Cs0.snap, s.age))
  /\ (s.has /\ s.since < MaxM) =>
        UrgNum(Urgency(Cfg0, [Snap0 EXCEPT !.since = s.since + 1], s.age)) >= UrgNum(Urgency(Cfg0, Cs0.snap, s.age))

Big(n) == ToBig(TB, n)
BigAgrees ==
  /\ FromBig(TB, Big(s.td)) = s.td
  /\ BAdd(TB, Big(s.td), Big(s.since)) = Big(s.td + s.since)
  /\ BHalf(TB, Big(s.td + s.since)) = Big((s.td + s.since) \div 2)
  /\ BCmp(Big(s.td), Big(s.since)) = (IF s.td < s.since THEN -1 ELSE IF s.td > s.since THEN 1 ELSE 0)
  /\ BUrg3(TB, Big(s.td), [neg |-> s.age < 0, mag |-> Big(IF s.age < 0 THEN 0 - s.age ELSE s.age)]) = Urg3(s.td, s.age)
=============================================================================
