SPECIFICATION Spec
CONSTANTS
  Clients = {1, 2}
  Rnd = {90}
  MaxPer <- Per33
  MaxTotal = 3
  MaxDay = 1
  SnapDays = 1
  SnapVersions = 2
  SnapToks = {1}
  SearchLen = 5
VIEW view
INVARIANTS TypeOK Inv_Ghost Inv_C01 Inv_C11 Inv_C12 Inv_Fresh Inv_Disjoint Inv_C08pair
PROPERTIES P_C02 P_C06 P_C07 P_C08 P_C09 P_C10 P_C11 P_C12 P_C18
CHECK_DEADLOCK FALSE
