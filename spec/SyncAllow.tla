----------------------------- MODULE SyncAllow -----------------------------
(***************************************************************************)
(* The client-id allow-list (server/src/api/mod.rs client_id_header,       *)
(* server/src/lib.rs WebServer::new) on top of the sequential protocol:    *)
(* a web server is constructed with `allow` = [on, ids]; every protocol    *)
(* request carrying a client id outside the list is refused (403) before   *)
(* any storage access; a listed client is served by the ordinary protocol  *)
(* action.  SetAllow models stopping the server and starting a new one     *)
(* with a list on the SAME data (the unlisted client may own data).        *)
(***************************************************************************)
EXTENDS SyncProtocol

CONSTANT Lists          \* the allow-lists that may be configured (sets of clients)

VARIABLE allow          \* [on |-> BOOLEAN, ids |-> SUBSET Clients]

avars == <<st, g, issued, day, ex, allow>>
aview == <<st, g, issued, day, allow>>

Listed(c) == ~allow.on \/ c \in allow.ids

AInit == Init /\ allow = [on |-> FALSE, ids |-> {}]

Refuse(c, op, a) ==
  /\ ~Listed(c)
  /\ ex' = [req |-> Req(op, c, a, 0, "http"), resp |-> Resp("refused", 403, 0, 0, "")]
  /\ UNCHANGED <<st, g, issued, day, allow>>

SetAllow(L) ==
  /\ ~allow.on                       \* one reconfiguration per behaviour keeps the model small
  /\ allow' = [on |-> TRUE, ids |-> L]
  /\ ex' = [req |-> Req("SetAllow", 0, 0, 0, "http"), resp |-> R0("reopened")]
  /\ UNCHANGED <<st, g, issued, day>>

ANext ==
  \/ /\ UNCHANGED allow
     /\ \/ \E c \in Clients : NewClient(c)                    \* storage-level set-up, not an HTTP request
        \/ \E c \in Clients, p \in KnownIds, lvl \in {"http", "any"} : Listed(c) /\ AddVersion(c, p, lvl)
        \/ \E c \in Clients, p \in KnownIds : Listed(c) /\ GetChildVersion(c, p)
        \/ \E c \in Clients, v \in KnownIds, t \in SnapToks : Listed(c) /\ AddSnapshot(c, v, t)
        \/ \E c \in Clients : Listed(c) /\ GetSnapshot(c)
  \/ \E c \in Clients, p \in KnownIds : Refuse(c, "AddVersion", p)
  \/ \E c \in Clients, p \in KnownIds : Refuse(c, "GetChildVersion", p)
  \/ \E c \in Clients, p \in KnownIds : Refuse(c, "AddSnapshot", p)
  \/ \E c \in Clients : Refuse(c, "GetSnapshot", Nil)
  \/ \E L \in Lists : SetAllow(L)

ASpec == AInit /\ [][ANext]_avars

(* C16 on the model: an unlisted request changes nothing and is answered "refused"; a listed one is
   exactly the protocol step (it IS the protocol action); with no list nobody is refused *)
Act_C16 ==
  LET r == ex'.req IN
  (r.op \in {"AddVersion", "GetChildVersion", "AddSnapshot", "GetSnapshot"} /\ r.c \in Clients) =>
     /\ (allow.on /\ r.c \notin allow.ids) => (ex'.resp.kind = "refused" /\ st' = st /\ g' = g)
     /\ (~allow.on \/ r.c \in allow.ids) => ex'.resp.kind # "refused"
P_C16 == [][Act_C16]_avars
=============================================================================
