------------------------------ MODULE SyncHttp ------------------------------
(***************************************************************************)
(* The HTTP surface of taskchampion-sync-server (server/src/api/*.rs,      *)
(* server/src/lib.rs) as TLA+ definitions:                                 *)
(*   - Encode: the status/headers/body a protocol outcome must be sent as  *)
(*   - the request GRAMMAR as a finite product, with a classifier that     *)
(*     says whether a request is well formed ("yes"), malformed ("no") or  *)
(*     in a form a UUID / MIME parser may legitimately accept or refuse    *)
(*     ("either")                                                          *)
(*   - the predicates of C14, C15, C16 and C20                             *)
(* http record (as recorded by the harness):                               *)
(*   [status, xv, xvc, xp, xpc, xs, ct, cc, nxv, nxp, nxs, ncc, blen, btok] *)
(*   xv/xp = id as the run's abstract number, -1 header absent, -2 garbage *)
(***************************************************************************)
EXTENDS Integers, Sequences, FiniteSets, SyncProps

HS_CT   == "application/vnd.taskchampion.history-segment"
SNAP_CT == "application/vnd.taskchampion.snapshot"
Limit   == 104857600      \* 100 MiB

(***************************************************************************)
(* C14: protocol outcome -> HTTP                                           *)
(***************************************************************************)
UrgHeader(u) == IF u = "low" THEN "urgency=low" ELSE IF u = "high" THEN "urgency=high" ELSE ""

(* does the HTTP record carry exactly the library outcome r of operation op? *)
Encodes(op, r, h) ==
  CASE r.kind = "ok" ->
         /\ h.status = 200 /\ h.nxv = 1 /\ h.xv = r.vid /\ h.xvc /\ h.nxp = 0
         /\ h.nxs = (IF r.urg = "none" THEN 0 ELSE 1) /\ h.xs = UrgHeader(r.urg)
    [] r.kind = "conflict" ->
         /\ h.status = 409 /\ h.nxp = 1 /\ h.xp = r.vid /\ h.xpc /\ h.nxv = 0 /\ h.nxs = 0
    [] r.kind = "found" ->
         /\ h.status = 200 /\ h.nxv = 1 /\ h.xv = r.vid /\ h.xvc /\ h.nxp = 1 /\ h.xp = r.parent /\ h.xpc
         /\ h.nxs = 0 /\ h.ct = HS_CT /\ h.btok = r.tok /\ h.blen > 0
    [] r.kind = "nf" -> h.status = 404 /\ h.nxv = 0 /\ h.nxp = 0 /\ h.nxs = 0
    [] r.kind = "nosuchclient" -> h.status = 404 /\ h.nxv = 0 /\ h.nxp = 0 /\ h.nxs = 0
    [] r.kind = "gone" -> h.status = 410 /\ h.nxv = 0 /\ h.nxp = 0 /\ h.nxs = 0
    [] r.kind = "snapok" -> h.status = 200 /\ h.nxv = 0 /\ h.nxp = 0 /\ h.nxs = 0
    [] r.kind = "snap" ->
         /\ h.status = 200 /\ h.nxv = 1 /\ h.xv = r.vid /\ h.xvc /\ h.nxp = 0 /\ h.nxs = 0
         /\ h.ct = SNAP_CT /\ h.btok = r.tok /\ h.blen > 0
    \* the library reports a storage failure (ServerError::Other): a server error, never one of the protocol's answers
    [] r.kind = "error" -> h.status \in 500..599 /\ h.nxv = 0 /\ h.nxp = 0 /\ h.nxs = 0
    [] OTHER -> FALSE      \* the library twin panicked: nothing can encode that

(* the outcome classes the property distinguishes are sent differently *)
EncodeSeparates ==
  \A k1, k2 \in {"ok", "conflict", "found", "nf", "gone", "snap"} :
     LET Status(k) == CASE k \in {"ok", "found", "snap"} -> 200 [] k = "conflict" -> 409 [] k = "nf" -> 404 [] OTHER -> 410
     IN (k1 # k2 /\ Status(k1) = Status(k2)) => {k1, k2} \subseteq {"ok", "found", "snap"}

C14_Step(op, twinResp, twinSt, resp, st, h) ==
  /\ Encodes(op, twinResp, h)
  /\ st = twinSt                    \* and the HTTP path left the state the library path leaves

(***************************************************************************)
(* C15: the request grammar                                                *)
(***************************************************************************)
Routes   == {"av", "gcv", "as", "gs", "gs_slash", "index", "unknown", "unknown2", "prefix"}
Methods  == {"GET", "POST", "PUT", "DELETE", "PATCH", "HEAD", "OPTIONS"}
CidForms == {"valid", "absent", "empty", "nonascii", "utf8", "short", "long", "garbage",
             "braced", "urn", "simple", "upper", "spaces",
             \* long values (error paths that quote or truncate the offending value): 40 x 0xFF, 40 x "xe'" (2-byte
             \* characters at odd offsets), 300 ASCII characters, a valid id followed by twelve 3-byte characters
             "longnonascii", "longutf8", "longascii", "idjunk"}
PidForms == {"valid", "upper", "braced", "simple", "urn", "short", "long", "nonhex", "empty", "none", "extra",
             "pctbad", "verylong"}       \* percent-encoded bytes that are not UTF-8; 300 characters
CtForms  == {"right", "absent", "wrong", "octet", "swapped", "upper", "params", "prefix"}
SmallSizes == {0, 1, 20}
BigSizes   == {Limit - 1, Limit, Limit + 1}

RouteMethod(r) == CASE r \in {"av", "as"} -> "POST" [] OTHER -> "GET"
HasPid(r)      == r \in {"av", "gcv", "as"}
HasBody(r)     == r \in {"av", "as"}
IsProto(r)     == r \in {"av", "gcv", "as", "gs"}

CidClass(f) == CASE f = "valid" -> "yes"
                 \* "spaces": optional whitespace around a header value is removed by HTTP/1.1 framing on a real
                 \* connection and kept by the in-process request builder
                 [] f \in {"braced", "urn", "simple", "upper", "spaces"} -> "either"
                 [] OTHER -> "no"
PidClass(f) == CASE f = "valid" -> "yes"
                 [] f \in {"braced", "simple", "upper", "urn"} -> "either"
                 [] OTHER -> "no"
CtClass(f)  == CASE f = "right" -> "yes"
                 [] f \in {"upper", "params"} -> "either"
                 [] OTHER -> "no"

Worst(a, b) == IF a = "no" \/ b = "no" THEN "no" ELSE IF a = "either" \/ b = "either" THEN "either" ELSE "yes"

(* a request of the grammar: [route, method, cid, pid, ct, size, chunks, abort]
   abort = the upload breaks in the middle of the body (transport error after the first chunk) *)
Class(q) ==
  IF q.route = "index" /\ q.method = "GET" THEN "other"  \* the index page: served whatever the headers, changes nothing
  ELSE IF ~IsProto(q.route) THEN "no"                  \* unknown route
  ELSE IF q.method # RouteMethod(q.route) THEN "no"    \* unknown method for the route
  ELSE Worst(CidClass(q.cid),
        Worst(IF HasPid(q.route) THEN PidClass(q.pid) ELSE "yes",
              IF HasBody(q.route)
                THEN Worst(CtClass(q.ct), IF q.size = 0 \/ q.size > Limit \/ q.abort THEN "no" ELSE "yes")
                ELSE "yes"))

Baseline(r) == [route |-> r, method |-> RouteMethod(r), cid |-> "valid", pid |-> "valid", ct |-> "right",
                size |-> IF HasBody(r) THEN 20 ELSE 0, chunks |-> 1, abort |-> FALSE]

Deviations(q) ==
  LET b == Baseline(q.route) IN
    (IF q.method # b.method THEN 1 ELSE 0) + (IF q.cid # b.cid THEN 1 ELSE 0) + (IF q.pid # b.pid THEN 1 ELSE 0)
  + (IF q.ct # b.ct THEN 1 ELSE 0) + (IF q.size # b.size THEN 1 ELSE 0) + (IF q.chunks # b.chunks THEN 1 ELSE 0)
  + (IF q.abort THEN 1 ELSE 0)

(* all requests that differ from the well-formed baseline of their route in at most `k` dimensions *)
Grammar(k, sizes, chunkings) ==
  {q \in [route : Routes, method : Methods, cid : CidForms, pid : PidForms, ct : CtForms,
          size : sizes, chunks : chunkings, abort : BOOLEAN] :
     /\ Deviations(q) <= k
     /\ (~HasPid(q.route) => q.pid = "valid")          \* dimensions a route does not have are fixed
     /\ (~HasBody(q.route) => q.ct = "right" /\ q.size = 0 /\ q.chunks = 1 /\ ~q.abort)
     /\ (q.abort => q.size >= 3 /\ q.chunks = 1)
     /\ (q.size <= 1 => q.chunks = 1)}

(* hg = grammar record as echoed in the trace (plus cls); h = http record *)
C15_Step(hg, h, resp, pre, post) ==
  /\ resp.kind # "panic" /\ h.status < 500                         \* never a 5xx, never a crash
  /\ Class(hg) = "no" => (h.status \in 400..499 /\ post = pre)     \* refused, nothing changed
  /\ Class(hg) = "either" => (h.status \in 400..499 => post = pre) \* refused => nothing changed
  /\ Class(hg) = "other" => post = pre
  /\ (Class(hg) = "yes" /\ hg.size <= Limit) => h.status \notin {400, 413, 415}   \* bodies up to the limit are accepted

(***************************************************************************)
(* C16: the allow-list                                                     *)
(***************************************************************************)
(* allow = [on, ids]; c = client number the (well-formed) client id belongs to, 0 = none;
   wf = the request is otherwise a well-formed protocol request (a malformed request of an unlisted
   client may be answered by another 4xx first - still without touching stored state) *)
C16_Step(allow, c, cidForm, proto, wf, h, ntxn, pre, post) ==
  LET ids == {allow.ids[i] : i \in DOMAIN allow.ids} IN
  /\ (allow.on /\ c # 0 /\ cidForm = "valid" /\ c \notin ids) =>
        /\ ntxn = 0 /\ post = pre
        /\ proto => h.status \in 400..499       \* proto: the path names one of the four protocol endpoints
        /\ wf => h.status = 403
  \* a listed client (any client when there is no list) is never refused as unknown, however its id is spelled
  \* (a spelling the server does not take is a malformed request: 400, as without a list)
  /\ (c # 0 /\ cidForm \in {"valid", "upper", "simple", "braced", "urn", "spaces"} /\ (~allow.on \/ c \in ids)) => h.status # 403

(***************************************************************************)
(* C20: every response forbids caching                                     *)
(***************************************************************************)
(* TLC strings are atomic: the harness splits the Cache-Control values on commas and reports in
   h.ccns whether one directive equals no-store (case-insensitively); h.cc is kept for the reader *)
C20_Step(h) == h.ncc >= 1 /\ h.ccns
=============================================================================
