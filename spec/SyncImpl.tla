----------------------------- MODULE SyncImpl -----------------------------
(***************************************************************************)
(* IMPLEMENTATION-SHAPED pure functions: core/src/server.rs and the        *)
(* storage contract of core/src/storage.rs transcribed path by path.       *)
(* cfg = [days, versions]; searchLen = SNAPSHOT_SEARCH_LEN.                *)
(* Used by the model (SyncProtocol) and, as a diagnostic, by the trace     *)
(* specifications ("is the observed step one the model allows?").          *)
(***************************************************************************)
EXTENDS Integers, Sequences, FiniteSets, SyncProps

Resp(k, v, p, t, u) == [kind |-> k, vid |-> v, parent |-> p, tok |-> t, urg |-> u]
R0(k) == Resp(k, 0, 0, 0, "")
Req(o, c, a, t, l) == [op |-> o, c |-> c, arg |-> a, tok |-> t, lvl |-> l]

(***************************************************************************)
(* Storage-contract helpers (StorageTxn methods on a committed record).    *)
(***************************************************************************)
GetVersionByParent(cs, p) == {v \in cs.versions : v.parent = p}
GetVersion(cs, id)        == {v \in cs.versions : v.vid = id}
StNewClient               == [exists |-> TRUE, latest |-> Nil, versions |-> {}, snap |-> NoSnap]
StAddVersion(cs, id, p, t) ==
  [cs EXCEPT !.latest = id,
             !.versions = @ \cup {Rec(id, p, t)},
             !.snap = IF @.has THEN [@ EXCEPT !.since = @ + 1] ELSE @]
StSetSnapshot(cs, v, t, d) ==
  [cs EXCEPT !.snap = [has |-> TRUE, vid |-> v, tok |-> t, since |-> 0, day |-> d]]

(***************************************************************************)
(* server.rs, transcribed                                                  *)
(***************************************************************************)
ForDays(cfg, days)  == IF days >= (cfg.days * 3) \div 2 THEN 2 ELSE IF days >= cfg.days THEN 1 ELSE 0
ForVersions(cfg, n) == IF n >= (cfg.versions * 3) \div 2 THEN 2 ELSE IF n >= cfg.versions THEN 1 ELSE 0
ImplUrgency(cfg, cs, d) ==
  LET tu == IF ~cs.snap.has THEN 2 ELSE ForDays(cfg, d - cs.snap.day)
      vu == IF ~cs.snap.has THEN 2 ELSE ForVersions(cfg, cs.snap.since)
  IN UrgName(MaxI(tu, vu))

ApplyGetChildVersion(cs, p) ==
  IF ~cs.exists THEN R0("nosuchclient")
  ELSE LET k == GetVersionByParent(cs, p) IN
       IF k # {} THEN LET v == CHOOSE x \in k : TRUE IN Resp("found", v.vid, v.parent, v.tok, "")
       ELSE IF cs.latest = p \/ cs.latest = Nil THEN R0("nf") ELSE R0("gone")

ApplyAddVersion(cfg, cs, p, t, newid, d) ==
  IF ~cs.exists THEN [cs |-> cs, resp |-> R0("nosuchclient")]
  ELSE IF cs.latest # Nil /\ p # cs.latest
    THEN [cs |-> cs, resp |-> Resp("conflict", cs.latest, 0, 0, "")]
  ELSE [cs |-> StAddVersion(cs, newid, p, t),
        resp |-> Resp("ok", newid, 0, 0, ImplUrgency(cfg, cs, d))]   \* urgency from the PRE-request record

RECURSIVE SnapWalk(_, _, _, _)
SnapWalk(cs, v, vid, searchLen) ==
  IF vid = v /\ v # Nil THEN TRUE
  ELSE IF cs.snap.has /\ vid = cs.snap.vid THEN FALSE
  ELSE IF searchLen - 1 <= 0 \/ vid = Nil THEN FALSE
  ELSE LET k == GetVersion(cs, vid) IN
       IF k = {} THEN FALSE
       ELSE SnapWalk(cs, v, (CHOOSE x \in k : TRUE).parent, searchLen - 1)

ApplyAddSnapshot(searchLen, cs, v, t, d) ==
  IF ~cs.exists THEN [cs |-> cs, resp |-> R0("nosuchclient")]
  ELSE IF cs.snap.has /\ cs.snap.vid = v THEN [cs |-> cs, resp |-> R0("snapok")]
  ELSE IF SnapWalk(cs, v, cs.latest, searchLen)
    THEN [cs |-> StSetSnapshot(cs, v, t, d), resp |-> R0("snapok")]
  ELSE [cs |-> cs, resp |-> R0("snapok")]

ApplyGetSnapshot(cs) ==
  IF ~cs.exists THEN R0("nosuchclient")
  ELSE IF cs.snap.has THEN Resp("snap", cs.snap.vid, 0, cs.snap.tok, "")
  ELSE R0("nf")

(* the HTTP add-version handler: create the client if absent, then add *)
ApplyHttpAddVersion(cfg, cs, p, t, newid, d) ==
  ApplyAddVersion(cfg, IF cs.exists THEN cs ELSE StNewClient, p, t, newid, d)

=============================================================================
