----------------------------- MODULE SyncProps -----------------------------
(***************************************************************************)
(* The listed properties C01..C20 of taskchampion-sync-server as TLA+      *)
(* predicates over an ABSTRACT state.  Nothing in this module mentions how *)
(* the code (or the implementation-shaped model SyncProtocol) computes an  *)
(* answer.  The predicates take the state as arguments, so the very same   *)
(* operator text is                                                        *)
(*   (1) checked by TLC on every state/step of the model (SyncProtocol,    *)
(*       SyncStorage, ...), and                                            *)
(*   (3) evaluated by TLC on every step the real code took (Trace*.tla).   *)
(*                                                                         *)
(* Shapes                                                                  *)
(*   version record   [vid, parent, tok]                                   *)
(*   snapshot record  [has, vid, tok, since, day]  (has=FALSE: all zero)   *)
(*   client state cs  [exists, latest, versions, snap]                     *)
(*   ghost gc         [exists, acc, snap:[has,vid,tok,day], since]         *)
(*                    acc = accepted version records in acceptance order   *)
(*   request          [op, c, arg, tok, lvl]    lvl \in {"lib","http"}     *)
(*   response         [kind, vid, parent, tok, urg]                        *)
(*   kinds: ok conflict nosuchclient found nf gone snapok snap created     *)
(*          refused error panic timeout                                    *)
(***************************************************************************)
EXTENDS Integers, Sequences, FiniteSets

Nil == 0
Window == 5      \* "the five most recent versions"

NoSnap  == [has |-> FALSE, vid |-> 0, tok |-> 0, since |-> 0, day |-> 0]
GNoSnap == [has |-> FALSE, vid |-> 0, tok |-> 0, day |-> 0]
Absent  == [exists |-> FALSE, latest |-> Nil, versions |-> {}, snap |-> NoSnap]
GAbsent == [exists |-> FALSE, acc |-> <<>>, snap |-> GNoSnap, since |-> 0]

Rec(v, p, t) == [vid |-> v, parent |-> p, tok |-> t]
Vids(cs)     == {v.vid : v \in cs.versions}
Toks(cs)     == {v.tok : v \in cs.versions} \cup (IF cs.snap.has THEN {cs.snap.tok} ELSE {})
AccSet(acc)  == {acc[i] : i \in DOMAIN acc}
AccVids(acc) == {acc[i].vid : i \in DOMAIN acc}
Base(acc)    == IF acc = <<>> THEN Nil ELSE acc[1].parent
GLatest(acc) == IF acc = <<>> THEN Nil ELSE acc[Len(acc)].vid
MaxI(a, b)   == IF a >= b THEN a ELSE b

(* position counted from the newest accepted version (newest = 1); 0 = not an accepted version *)
Pos(acc, v) == IF \E i \in DOMAIN acc : acc[i].vid = v
               THEN Len(acc) + 1 - (CHOOSE i \in DOMAIN acc : acc[i].vid = v)
               ELSE 0

(***************************************************************************)
(* The two acceptance rules, stated declaratively.                         *)
(***************************************************************************)
AVAccepts(cs, p) == cs.latest = Nil \/ p = cs.latest

SnapAccepts(gc, v) ==
  /\ v # Nil
  /\ LET pv == Pos(gc.acc, v) IN
       /\ pv \in 1..Window
       /\ ~(gc.snap.has /\ gc.snap.vid = v)
       /\ ~(gc.snap.has /\ Pos(gc.acc, gc.snap.vid) \in 1..(pv - 1))

(* the one corner properties.jsonl leaves open: v is the non-nil id the chain started from *)
SnapCorner(gc, v) == v # Nil /\ gc.acc # <<>> /\ v = Base(gc.acc) /\ Pos(gc.acc, v) = 0

(***************************************************************************)
(* Ghost bookkeeping: what the history says must be stored.                *)
(***************************************************************************)
GNext(gc, req, resp, postc, day) ==
  LET ex1 == gc.exists \/ (req.op = "NewClient" /\ resp.kind = "created")
                       \/ (req.op = "AddVersion" /\ resp.kind = "ok")
                       \/ (req.op = "AddVersion" /\ req.lvl = "http" /\ postc.exists)
      g1  == [gc EXCEPT !.exists = ex1]
  IN
  IF req.op = "AddVersion" /\ resp.kind = "ok"
    THEN [g1 EXCEPT !.acc = Append(@, Rec(resp.vid, req.arg, req.tok)),
                    !.since = IF gc.snap.has THEN @ + 1 ELSE @]
  ELSE IF req.op = "AddSnapshot" /\ resp.kind = "snapok" /\ gc.exists
            /\ ( SnapAccepts(gc, req.arg)
                 \/ ( SnapCorner(gc, req.arg) /\ ~gc.snap.has
                      /\ postc.snap.has /\ postc.snap.vid = req.arg ) )
    THEN [g1 EXCEPT !.snap = [has |-> TRUE, vid |-> req.arg, tok |-> req.tok, day |-> day],
                    !.since = 0]
  ELSE g1

GState(gc) == [exists   |-> gc.exists,
               latest   |-> GLatest(gc.acc),
               versions |-> AccSet(gc.acc),
               snap     |-> IF gc.snap.has
                            THEN [has |-> TRUE, vid |-> gc.snap.vid, tok |-> gc.snap.tok,
                                  since |-> gc.since, day |-> gc.snap.day]
                            ELSE NoSnap]

(***************************************************************************)
(* C01 - one unbranched chain, walkable end to end                         *)
(***************************************************************************)
RECURSIVE WalkFrom(_, _, _)
WalkFrom(vs, p, fuel) ==
  IF fuel = 0 THEN <<>>
  ELSE LET k == {v \in vs : v.parent = p} IN
       IF k = {} THEN <<>>
       ELSE LET v == CHOOSE x \in k : TRUE IN <<v>> \o WalkFrom(vs, v.vid, fuel - 1)

StateWalk(cs, from) == WalkFrom(cs.versions, from, Cardinality(cs.versions) + 1)

C01_State(gc, cs) ==
  /\ \A v, w \in cs.versions : (v.parent = w.parent \/ v.vid = w.vid) => v = w
  /\ (cs.latest = Nil) <=> (cs.versions = {})
  /\ Nil \notin Vids(cs)
  /\ StateWalk(cs, Base(gc.acc)) = gc.acc
  /\ cs.latest = GLatest(gc.acc)

(* protocol-level walk: the sequence of found answers and the terminal answer *)
C01_Walk(gc, from, seq, term) ==
  from = Base(gc.acc) =>
     IF gc.exists THEN seq = gc.acc /\ term = "nf"
     ELSE seq = <<>> /\ term \in {"nf", "nosuchclient"}     \* a client the server has never seen

(***************************************************************************)
(* C02 - AddVersion is an atomic compare-and-append                        *)
(***************************************************************************)
C02_Step(prec, postc, allvids, issued, req, resp) ==
  req.op = "AddVersion" =>
    IF ~prec.exists /\ req.lvl = "lib"
      THEN resp.kind = "nosuchclient" /\ postc = prec
    ELSE IF AVAccepts(prec, req.arg)
      THEN /\ resp.kind = "ok"
           /\ resp.vid # Nil
           /\ resp.vid \notin issued
           /\ resp.vid \notin allvids
           /\ postc = [exists   |-> TRUE,
                       latest   |-> resp.vid,
                       versions |-> prec.versions \cup {Rec(resp.vid, req.arg, req.tok)},
                       snap     |-> IF prec.snap.has
                                    THEN [prec.snap EXCEPT !.since = @ + 1]
                                    ELSE prec.snap]
      ELSE /\ resp.kind = "conflict"
           /\ resp.vid = prec.latest
           /\ postc = prec

(***************************************************************************)
(* C06 - payload pairing (bytes are tokens here; the harness maps bytes    *)
(* to the token of the upload they equal, or to the token -1)              *)
(***************************************************************************)
C06_Step(gc, req, resp) ==
  /\ (req.op = "GetChildVersion" /\ resp.kind = "found") =>
        \E r \in AccSet(gc.acc) : r.vid = resp.vid /\ r.parent = resp.parent /\ r.tok = resp.tok
  /\ (req.op = "GetSnapshot" /\ resp.kind = "snap") =>
        (gc.snap.has /\ gc.snap.vid = resp.vid /\ gc.snap.tok = resp.tok)

(***************************************************************************)
(* C07 - accepted history is immutable                                     *)
(***************************************************************************)
C07_State(gc, prec, postc) ==
  /\ prec.versions \subseteq postc.versions
  /\ AccSet(gc.acc) \subseteq postc.versions

C07_Read(gc, req, resp) ==
  (req.op = "GetChildVersion" /\ \E r \in AccSet(gc.acc) : r.parent = req.arg) =>
     (resp.kind = "found" /\ Rec(resp.vid, resp.parent, resp.tok) \in AccSet(gc.acc)
                          /\ resp.parent = req.arg)

(***************************************************************************)
(* C08 - GetChildVersion found / not-found / gone                          *)
(***************************************************************************)
C08_Step(prec, req, resp) ==
  req.op = "GetChildVersion" =>
    IF ~prec.exists THEN resp.kind \in {"nf", "nosuchclient"}
    ELSE LET k == {v \in prec.versions : v.parent = req.arg} IN
         IF k # {} THEN resp.kind = "found" /\ Rec(resp.vid, resp.parent, resp.tok) \in k
         ELSE IF AVAccepts(prec, req.arg) THEN resp.kind = "nf" ELSE resp.kind = "gone"

(* GetChildVersion(p) immediately followed by AddVersion(p) of the same client *)
C08_Pair(preq, presp, req, resp) ==
  (preq.op = "GetChildVersion" /\ req.op = "AddVersion" /\ preq.c = req.c /\ preq.arg = req.arg) =>
       /\ presp.kind = "nf" => resp.kind = "ok"
       /\ presp.kind \in {"gone", "found"} => resp.kind = "conflict"

(***************************************************************************)
(* C09 - isolation (step facet; the two-run facet is TraceLockstep)        *)
(***************************************************************************)
C09_Step(pre, post, clients, req, resp) ==
  LET c == req.c
      others == clients \ {c}
      fvids == UNION {Vids(pre[d]) : d \in others}
      ftoks == UNION {Toks(pre[d]) : d \in others}
      ovids == Vids(pre[c]) \cup {pre[c].latest, req.arg} \cup {v.parent : v \in pre[c].versions}
                 \cup (IF pre[c].snap.has THEN {pre[c].snap.vid} ELSE {})
      otoks == Toks(pre[c]) \cup {req.tok}
  IN
  /\ \A d \in others : post[d] = pre[d]
  /\ resp.kind \in {"ok", "conflict", "found", "snap"} => resp.vid \notin (fvids \ ovids)
  /\ resp.kind \in {"found", "snap"} => resp.tok \notin (ftoks \ otoks)

(***************************************************************************)
(* C10 - snapshots only for recent, newer versions; never backwards        *)
(***************************************************************************)
C10_Step(gc, prec, postc, req, resp, day) ==
  req.op = "AddSnapshot" =>
    IF ~prec.exists THEN resp.kind \in {"nosuchclient", "nf"} /\ postc = prec
    ELSE /\ resp.kind = "snapok"
         /\ LET acceptedState == [prec EXCEPT !.snap = [has |-> TRUE, vid |-> req.arg,
                                      tok |-> req.tok, since |-> 0, day |-> day]]
            IN IF SnapAccepts(gc, req.arg) THEN postc = acceptedState
               ELSE IF SnapCorner(gc, req.arg) /\ ~gc.snap.has
                      THEN postc = prec \/ postc = acceptedState
               ELSE postc = prec

(* the snapshot version only moves forward along the chain (base counts as the oldest) *)
SnapRank(gc, cs) == IF ~cs.snap.has THEN -1
                    ELSE IF cs.snap.vid \in AccVids(gc.acc)
                           THEN Len(gc.acc) + 1 - Pos(gc.acc, cs.snap.vid)
                    ELSE 0
C10_Mono(gc, gc2, prec, postc) == SnapRank(gc2, postc) >= SnapRank(gc, prec)

(***************************************************************************)
(* C11 - GetSnapshot returns the latest accepted snapshot; usable base     *)
(***************************************************************************)
C11_Step(gc, prec, req, resp) ==
  req.op = "GetSnapshot" =>
    IF ~prec.exists THEN resp.kind \in {"nf", "nosuchclient"}
    ELSE IF gc.snap.has
      THEN resp.kind = "snap" /\ resp.vid = gc.snap.vid /\ resp.tok = gc.snap.tok
      ELSE resp.kind = "nf"

C11_State(gc, cs) ==
  /\ cs.snap.has = gc.snap.has
  /\ cs.snap.has =>
       /\ cs.snap.vid = gc.snap.vid /\ cs.snap.tok = gc.snap.tok /\ cs.snap.day = gc.snap.day
       /\ cs.snap.vid \in (AccVids(gc.acc) \cup {Base(gc.acc)})
       \* a usable base: walking the stored chain from it ends at the latest version
       /\ LET w == StateWalk(cs, cs.snap.vid) IN
            IF w = <<>> THEN cs.snap.vid = cs.latest ELSE w[Len(w)].vid = cs.latest

C11_Walk(gc, from, seq, term) ==
  (gc.snap.has /\ from = gc.snap.vid) =>
     /\ term = "nf"
     /\ (IF seq = <<>> THEN from ELSE seq[Len(seq)].vid) = GLatest(gc.acc)

(***************************************************************************)
(* C12 - snapshot urgency                                                  *)
(***************************************************************************)
Urg3(t, m) == IF m >= t + (t \div 2) THEN 2 ELSE IF m >= t THEN 1 ELSE 0
UrgName(n) == IF n = 2 THEN "high" ELSE IF n = 1 THEN "low" ELSE "none"
Urgency(cfg, snap, day) ==
  IF ~snap.has THEN "high"
  ELSE UrgName(MaxI(Urg3(cfg.days, day - snap.day), Urg3(cfg.versions, snap.since)))

C12_Step(cfg, prec, req, resp, day) ==
  (req.op = "AddVersion" /\ resp.kind = "ok") => resp.urg = Urgency(cfg, prec.snap, day)

C12_Counter(gc, cs) == cs.snap.has => cs.snap.since = gc.since

(***************************************************************************)
(* C18 - reads and rejected writes leave stored state untouched            *)
(***************************************************************************)
NonMutating(gc, req, resp) ==
  \/ req.op \in {"GetChildVersion", "GetSnapshot", "Walk", "Http"}
  \/ req.op = "AddVersion" /\ resp.kind \in {"conflict", "nosuchclient"}
  \/ req.op = "AddSnapshot" /\ ~SnapAccepts(gc, req.arg) /\ ~(SnapCorner(gc, req.arg) /\ ~gc.snap.has)
  \/ resp.kind \in {"refused", "other"}
  \* a request that is answered with a server error (or dies) is a refused request as well
  \/ resp.kind \in {"error", "panic"}

C18_Step(gc, pre, post, req, resp) == NonMutating(gc, req, resp) => post = pre

=============================================================================
