--------------------------- MODULE SyncProtocol ---------------------------
(***************************************************************************)
(* Layer L2: the sequential protocol of taskchampion-sync-server.          *)
(*                                                                         *)
(* The four protocol operations are written as pure, IMPLEMENTATION-SHAPED *)
(* functions that mirror core/src/server.rs path by path (the acceptance   *)
(* test of add_version, the bounded parent walk of add_snapshot with its   *)
(* search length, the by-parent lookup followed by the latest test in      *)
(* get_child_version, the urgency computed from the pre-request record).   *)
(* The declarative statements of the properties live in SyncProps and are  *)
(* checked against these functions by TLC in every reachable state / step. *)
(*                                                                         *)
(* One request = one storage transaction = one atomic step here; the       *)
(* finer grain (storage calls, lock, faults, crashes) is SyncStorage.      *)
(***************************************************************************)
EXTENDS Integers, Sequences, FiniteSets, TLC, SyncImpl

CONSTANTS Clients,       \* set of client numbers, e.g. {1, 2}
          Rnd,           \* version ids that are never issued ("random" ids quoted by clients)
          MaxPer,        \* bound: accepted versions per client (a function of the client)
          MaxTotal,      \* bound: accepted versions overall
          MaxDay,        \* bound: days that may pass
          SnapDays,      \* configuration: snapshot_days
          SnapVersions,  \* configuration: snapshot_versions
          SnapToks,      \* payload tokens for snapshot uploads
          SearchLen      \* SNAPSHOT_SEARCH_LEN of the code (5); a constant so that model mutants can vary it

VARIABLES st,      \* client -> stored state
          g,       \* client -> ghost (history) state, used only by properties
          issued,  \* version ids ever returned by an accepted AddVersion
          day,     \* days since start
          ex       \* the last exchange [req, resp] (hidden from the fingerprint by VIEW)

vars == <<st, g, issued, day, ex>>
view == <<st, g, issued, day>>

Cfg == [days |-> SnapDays, versions |-> SnapVersions]

(***************************************************************************)
(* State machine                                                           *)
(***************************************************************************)
Init ==
  /\ st = [c \in Clients |-> Absent]
  /\ g = [c \in Clients |-> GAbsent]
  /\ issued = {}
  /\ day = 0
  /\ ex = [req |-> Req("Init", 0, 0, 0, "any"), resp |-> R0("init")]

NextId(c)  == c * 100 + Cardinality(st[c].versions) + 1
AllVids    == UNION {Vids(st[c]) : c \in Clients}
KnownIds   == {Nil} \cup Rnd \cup AllVids \cup {Base(g[c].acc) : c \in Clients}
Total      == Cardinality(AllVids)
RoomFor(c) == Cardinality(st[c].versions) < MaxPer[c] /\ Total < MaxTotal

Do(c, req, cs2, resp) ==
  /\ st' = [st EXCEPT ![c] = cs2]
  /\ g' = [g EXCEPT ![c] = GNext(g[c], req, resp, cs2, day)]
  /\ issued' = IF resp.kind = "ok" THEN issued \cup {resp.vid} ELSE issued
  /\ ex' = [req |-> req, resp |-> resp]
  /\ UNCHANGED day

NewClient(c) ==
  /\ ~st[c].exists      \* documented precondition of new_client
  /\ Do(c, Req("NewClient", c, Nil, 0, "any"), StNewClient, R0("created"))

AddVersion(c, p, lvl) ==
  /\ (st[c].exists <=> lvl = "any")   \* lib and http differ only for an unknown client
  /\ LET t == NextId(c)
         r == IF lvl = "http" THEN ApplyHttpAddVersion(Cfg, st[c], p, t, NextId(c), day)
              ELSE ApplyAddVersion(Cfg, st[c], p, t, NextId(c), day)
     IN /\ (r.resp.kind = "ok" => RoomFor(c))
        /\ Do(c, Req("AddVersion", c, p, t, lvl), r.cs, r.resp)

GetChildVersion(c, p) ==
  Do(c, Req("GetChildVersion", c, p, 0, "any"), st[c], ApplyGetChildVersion(st[c], p))

AddSnapshot(c, v, t) ==
  LET r == ApplyAddSnapshot(SearchLen, st[c], v, t, day) IN
  Do(c, Req("AddSnapshot", c, v, t, "any"), r.cs, r.resp)

GetSnapshot(c) ==
  Do(c, Req("GetSnapshot", c, Nil, 0, "any"), st[c], ApplyGetSnapshot(st[c]))

Tick ==
  /\ day < MaxDay
  /\ day' = day + 1
  /\ ex' = [req |-> Req("Tick", 0, 0, 0, "any"), resp |-> R0("tick")]
  /\ UNCHANGED <<st, g, issued>>

(* drop the storage object and construct a new one on the same data: no abstract effect *)
Reopen ==
  /\ ex' = [req |-> Req("Reopen", 0, 0, 0, "any"), resp |-> R0("reopened")]
  /\ UNCHANGED <<st, g, issued, day>>

Next ==
  \/ \E c \in Clients : NewClient(c)
  \/ \E c \in Clients, p \in KnownIds, lvl \in {"lib", "http", "any"} : AddVersion(c, p, lvl)
  \/ \E c \in Clients, p \in KnownIds : GetChildVersion(c, p)
  \/ \E c \in Clients, v \in KnownIds, t \in SnapToks : AddSnapshot(c, v, t)
  \/ \E c \in Clients : GetSnapshot(c)
  \/ Tick
  \/ Reopen

Spec == Init /\ [][Next]_vars

(***************************************************************************)
(* Properties of the design: the SyncProps predicates on the model         *)
(***************************************************************************)
TypeOK ==
  /\ \A c \in Clients : st[c].exists \in BOOLEAN /\ st[c].snap.has \in BOOLEAN
  /\ day \in 0..MaxDay

Inv_Ghost   == \A c \in Clients : st[c] = GState(g[c])
Inv_C01     == \A c \in Clients : C01_State(g[c], st[c])
Inv_C11     == \A c \in Clients : C11_State(g[c], st[c])
Inv_C12     == \A c \in Clients : C12_Counter(g[c], st[c])
Inv_Fresh   == \A c \in Clients : Vids(st[c]) \subseteq issued /\ Vids(st[c]) \cap Rnd = {}
Inv_Disjoint == \A c, d \in Clients : c # d => Vids(st[c]) \cap Vids(st[d]) = {}

IsReq == ex'.req.op \in {"NewClient", "AddVersion", "GetChildVersion", "AddSnapshot", "GetSnapshot"}
AC == ex'.req.c

Act_C02 == IsReq => C02_Step(st[AC], st'[AC], AllVids, issued, ex'.req, ex'.resp)
Act_C06 == IsReq => C06_Step(g[AC], ex'.req, ex'.resp)
Act_C07 == /\ \A c \in Clients : C07_State(g'[c], st[c], st'[c])
           /\ IsReq => C07_Read(g[AC], ex'.req, ex'.resp)
Act_C08 == IsReq => C08_Step(st[AC], ex'.req, ex'.resp)
(* GetChildVersion is a self-loop, so "GetChildVersion(p) then AddVersion(p)" is a fact about one state *)
Inv_C08pair == \A c \in Clients, p \in KnownIds :
   LET q1 == Req("GetChildVersion", c, p, 0, "any")
       q2 == Req("AddVersion", c, p, 1, IF st[c].exists THEN "any" ELSE "http")
   IN C08_Pair(q1, ApplyGetChildVersion(st[c], p), q2,
               ApplyHttpAddVersion(Cfg, st[c], p, 1, NextId(c), day).resp)
Act_C09 == IsReq => C09_Step(st, st', Clients, ex'.req, ex'.resp)
Act_C10 == IsReq => ( C10_Step(g[AC], st[AC], st'[AC], ex'.req, ex'.resp, day)
                      /\ C10_Mono(g[AC], g'[AC], st[AC], st'[AC]) )
Act_C11 == IsReq => C11_Step(g[AC], st[AC], ex'.req, ex'.resp)
Act_C12 == IsReq => C12_Step(Cfg, st[AC], ex'.req, ex'.resp, day)
Act_C18 == IF IsReq THEN C18_Step(g[AC], st, st', ex'.req, ex'.resp) ELSE st' = st

P_C02 == [][Act_C02]_vars
P_C06 == [][Act_C06]_vars
P_C07 == [][Act_C07]_vars
P_C08 == [][Act_C08]_vars
P_C09 == [][Act_C09]_vars
P_C10 == [][Act_C10]_vars
P_C11 == [][Act_C11]_vars
P_C12 == [][Act_C12]_vars
P_C18 == [][Act_C18]_vars

(* every response kind and both snapshot outcomes are reachable (vacuity control, used negated) *)
=============================================================================
