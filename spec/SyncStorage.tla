---------------------------- MODULE SyncStorage ----------------------------
(***************************************************************************)
(* Layers L0/L1: requests as PROGRAMS over the storage contract.           *)
(*                                                                         *)
(* Each in-flight request r has a program counter; every storage call the  *)
(* code makes (txn / get_client / get_version_by_parent / get_version /    *)
(* add_version / set_snapshot / get_snapshot_data / new_client / commit /  *)
(* drop of the transaction) is ONE action here, in the order in which      *)
(* core/src/server.rs and server/src/api/add_version.rs make them.         *)
(* Transactions are exclusive (BEGIN IMMEDIATE / the global mutex): `lock` *)
(* is the holder.  Backend semantics differ where the code's do:           *)
(*   sqlite   - a transaction works on a private copy, COMMIT publishes    *)
(*              it, dropping it without COMMIT discards it; new_client is  *)
(*              INSERT OR REPLACE (resets the row)                         *)
(*   inmemory - writes hit the shared maps at once, there is no rollback,  *)
(*              dropping a written, uncommitted transaction panics;        *)
(*              new_client fails for an existing client                    *)
(* The HTTP add-version handler is the three-transaction loop of           *)
(* add_version.rs; CreateChecks says whether its create-client transaction *)
(* re-reads the client record before creating it.                          *)
(*                                                                         *)
(* Faults: any storage call may fail "before" (no effect) or "after" (the  *)
(* effect is applied, the error is returned); the program continues on the *)
(* code's error path (`?`: drop the transaction, answer 500).              *)
(* Crash (sqlite): every in-flight request vanishes, committed data stays. *)
(***************************************************************************)
EXTENDS Integers, Sequences, FiniteSets, TLC, ConcProps

CONSTANTS Backend,        \* "sqlite" or "inmemory"
          CreateChecks,   \* BOOLEAN: create-client transaction calls get_client first
          NReq,           \* number of concurrent requests (2 or 3)
          ReqChoices,     \* set of request definitions [op, c, arg, lvl] to draw from
          Seeds,          \* set of seed scripts (sequences of request definitions)
          FaultBudget,    \* max injected faults
          CrashOn,        \* BOOLEAN: the Crash action is enabled
          SnapDays, SnapVersions

Cfg == [days |-> SnapDays, versions |-> SnapVersions]
RIds == 1..NReq
C1 == 1            \* the client all concurrent requests address
NewVid(r) == 500 + r

VARIABLES db,      \* committed state of client C1
          lock,    \* request holding the storage lock, 0 = free
          rd,      \* request definitions, chosen at Init: r -> [op, c, arg, lvl]
          seed,    \* the seed script chosen at Init (kept for emission)
          pc,      \* r -> program counter
          wc,      \* r -> private working copy (sqlite) while in a transaction
          dirty,   \* r -> the open transaction has written
          plan,    \* r -> outcome computed when the client record was read: [cs, resp, walk]
          walked,  \* r -> get_version calls made so far by add_snapshot
          resp,    \* r -> response ("none" until answered)
          faults,  \* faults injected so far
          fkind,   \* r -> "" or the kind of fault this request met
          crashed, \* BOOLEAN
          hist     \* the schedule: sequence of <<r, call>>

vars == <<db, lock, rd, seed, pc, wc, dirty, plan, walked, resp, faults, fkind, crashed, hist>>

NoPlan == [cs |-> Absent, resp |-> R0("none"), walk |-> 0]

(***************************************************************************)
(* Seed states: the result of a fixed sequential script, so that the       *)
(* harness can build the same state on a real storage by running it.       *)
(***************************************************************************)
SeedId(k) == 100 + k        \* id of the k-th version accepted by the script

RECURSIVE RunScript(_, _, _)
RunScript(cs, script, i) ==
  IF i > Len(script) THEN cs
  ELSE LET q == script[i]
           nv == SeedId(Cardinality(cs.versions) + 1)
           nxt == CASE q.op = "NewClient"   -> StNewClient
                    [] q.op = "AddVersion"  -> ApplyHttpAddVersion(Cfg, cs, q.arg, nv, nv, 0).cs
                    [] q.op = "AddSnapshot" -> ApplyAddSnapshot(5, cs, q.arg, 900 + i, 0).cs
                    [] OTHER                -> cs
       IN RunScript(nxt, script, i + 1)

SeedState(script) == RunScript(Absent, script, 1)

(***************************************************************************)
(* Sequential meaning of one request (used by the linearizability check)   *)
(***************************************************************************)
SeqApply(cs, r, q) ==
  CASE q.op = "AddVersion" ->
         IF q.lvl = "http" THEN ApplyHttpAddVersion(Cfg, cs, q.arg, NewVid(r), NewVid(r), 0)
                           ELSE ApplyAddVersion(Cfg, cs, q.arg, NewVid(r), NewVid(r), 0)
    [] q.op = "GetChildVersion" -> [cs |-> cs, resp |-> ApplyGetChildVersion(cs, q.arg)]
    [] q.op = "AddSnapshot"     -> ApplyAddSnapshot(5, cs, q.arg, 800 + r, 0)
    [] q.op = "GetSnapshot"     -> [cs |-> cs, resp |-> ApplyGetSnapshot(cs)]
    [] OTHER                    -> [cs |-> cs, resp |-> R0("none")]

(* number of get_version calls add_snapshot makes before it decides *)
RECURSIVE WalkLen(_, _, _, _)
WalkLen(cs, v, vid, searchLen) ==
  IF vid = v /\ v # Nil THEN 0
  ELSE IF cs.snap.has /\ vid = cs.snap.vid THEN 0
  ELSE IF searchLen - 1 <= 0 \/ vid = Nil THEN 0
  ELSE LET k == GetVersion(cs, vid) IN
       IF k = {} THEN 1
       ELSE 1 + WalkLen(cs, v, (CHOOSE x \in k : TRUE).parent, searchLen - 1)

(***************************************************************************)
(* Init                                                                    *)
(***************************************************************************)
Init ==
  /\ seed \in Seeds
  /\ db = SeedState(seed)
  /\ rd \in [RIds -> ReqChoices]
  /\ \A i, j \in RIds : i < j => rd[i].ord <= rd[j].ord     \* requests are interchangeable: one order suffices
  /\ lock = 0
  /\ pc = [r \in RIds |-> "start"]
  /\ wc = [r \in RIds |-> Absent]
  /\ dirty = [r \in RIds |-> FALSE]
  /\ plan = [r \in RIds |-> NoPlan]
  /\ walked = [r \in RIds |-> 0]
  /\ resp = [r \in RIds |-> R0("none")]
  /\ faults = 0
  /\ fkind = [r \in RIds |-> ""]
  /\ crashed = FALSE
  /\ hist = <<>>

(* request shapes carry a symbolic argument, resolved against the seed state *)
SeedLatest == SeedState(seed).latest
SeedOld    == LET vs == SeedState(seed).versions IN
              IF vs = {} THEN Nil ELSE (CHOOSE v \in vs : \A w \in vs : v.vid <= w.vid).vid
SeedMid    == LET vs == SeedState(seed).versions IN
              IF Cardinality(vs) < 2 THEN SeedLatest
              ELSE (CHOOSE v \in vs : v.vid = SeedLatest).parent
Resolve(k) == CASE k = "nil" -> Nil [] k = "latest" -> SeedLatest [] k = "old" -> SeedOld [] k = "mid" -> SeedMid [] OTHER -> 90
ReqOf(r) == [op |-> rd[r].op, c |-> C1, arg |-> Resolve(rd[r].argk), lvl |-> rd[r].lvl]

View(r) == IF Backend = "sqlite" THEN wc[r] ELSE db
Log(r, call) == hist' = Append(hist, <<r, call>>)

(* write through the open transaction of r *)
WriteTo(r, cs2) ==
  /\ dirty' = [dirty EXCEPT ![r] = TRUE]
  /\ IF Backend = "sqlite" THEN wc' = [wc EXCEPT ![r] = cs2] /\ UNCHANGED db
                           ELSE db' = cs2 /\ UNCHANGED wc

Goto(r, l) == pc' = [pc EXCEPT ![r] = l]

(***************************************************************************)
(* Transaction begin / end (shared by all programs)                        *)
(***************************************************************************)
(* the thread enters Storage::txn(); it may block there *)
BeginCall(r) ==
  /\ pc[r] \in {"start", "cstart"}
  \* partial-order reduction: a thread that finds the lock taken blocks inside txn(); when exactly it
  \* started to wait is unobservable, so it starts either while the lock is free or right after
  \* another request acquired it
  /\ (lock = 0 \/ (hist # <<>> /\ hist[Len(hist)][2] = "acquired"))
  /\ Goto(r, IF pc[r] = "start" THEN "wait" ELSE "cwait")
  /\ Log(r, "txn")
  /\ UNCHANGED <<db, lock, rd, seed, wc, dirty, plan, walked, resp, faults, fkind, crashed>>

(* BEGIN IMMEDIATE succeeds / the mutex is acquired: only when the lock is free *)
Acquire(r) ==
  /\ pc[r] \in {"wait", "cwait"}
  /\ lock = 0
  /\ lock' = r
  /\ wc' = [wc EXCEPT ![r] = db]
  /\ dirty' = [dirty EXCEPT ![r] = FALSE]
  /\ Goto(r, IF pc[r] = "wait" THEN "gc" ELSE (IF CreateChecks THEN "cgc" ELSE "cnew"))
  /\ Log(r, "acquired")
  /\ UNCHANGED <<db, rd, seed, plan, walked, resp, faults, fkind, crashed>>

(* the transaction object is dropped: rollback of uncommitted writes (sqlite) or panic (inmemory) *)
Release(r) ==
  /\ pc[r] \in {"rel", "crel"}
  /\ lock' = (IF lock = r THEN 0 ELSE lock)      \* sqlite: COMMIT already gave the lock up
  /\ LET panic == Backend = "inmemory" /\ dirty[r] IN
     /\ IF pc[r] = "crel"
          THEN IF panic \/ plan[r].resp.kind \in {"error", "panic"}
                 THEN /\ Goto(r, "done")
                      /\ resp' = [resp EXCEPT ![r] = IF panic THEN R0("panic") ELSE plan[r].resp]
                 ELSE /\ Goto(r, "start")       \* `continue`: repeat add_version
                      /\ UNCHANGED resp
          ELSE IF plan[r].resp.kind = "nosuchclient" /\ rd[r].lvl = "http" /\ rd[r].op = "AddVersion" /\ ~panic
                 THEN /\ Goto(r, "cstart")      \* Err(NoSuchClient): create the client in a second transaction
                      /\ UNCHANGED resp
                 ELSE /\ Goto(r, "done")
                      /\ resp' = [resp EXCEPT ![r] = IF panic THEN R0("panic") ELSE plan[r].resp]
  /\ dirty' = [dirty EXCEPT ![r] = FALSE]
  /\ Log(r, "release")
  /\ UNCHANGED <<db, rd, seed, wc, plan, walked, faults, fkind, crashed>>

(***************************************************************************)
(* The protocol programs                                                   *)
(***************************************************************************)
(* get_client: the whole outcome is determined by the record read here, because nothing can
   change under the transaction; the later calls only carry it out *)
GetClient(r) ==
  /\ pc[r] = "gc" /\ lock = r
  /\ LET cs == View(r)
         q  == ReqOf(r)
         o  == CASE q.op = "AddVersion"      -> ApplyAddVersion(Cfg, cs, q.arg, NewVid(r), NewVid(r), 0)
                 [] q.op = "GetChildVersion" -> [cs |-> cs, resp |-> ApplyGetChildVersion(cs, q.arg)]
                 [] q.op = "AddSnapshot"     -> ApplyAddSnapshot(5, cs, q.arg, 800 + r, 0)
                 [] q.op = "GetSnapshot"     -> [cs |-> cs, resp |-> ApplyGetSnapshot(cs)]
         wl == IF q.op = "AddSnapshot" /\ cs.exists /\ ~(cs.snap.has /\ cs.snap.vid = q.arg)
                 THEN WalkLen(cs, q.arg, cs.latest, 5) ELSE 0
     IN /\ plan' = [plan EXCEPT ![r] = [cs |-> o.cs, resp |-> o.resp, walk |-> wl]]
        /\ walked' = [walked EXCEPT ![r] = 0]
        /\ Goto(r, IF ~cs.exists THEN "rel"
                   ELSE CASE q.op = "AddVersion"      -> IF o.resp.kind = "ok" THEN "av" ELSE "rel"
                          [] q.op = "GetChildVersion" -> "gvbp"
                          [] q.op = "AddSnapshot"     -> IF wl > 0 THEN "gv" ELSE (IF o.cs # cs THEN "ss" ELSE "rel")
                          [] q.op = "GetSnapshot"     -> IF cs.snap.has THEN "gsd" ELSE "rel")
  /\ Log(r, "get_client")
  /\ UNCHANGED <<db, lock, rd, seed, wc, dirty, resp, faults, fkind, crashed>>

GetVersionByParentCall(r) ==
  /\ pc[r] = "gvbp" /\ lock = r
  /\ Goto(r, "rel") /\ Log(r, "get_version_by_parent")
  /\ UNCHANGED <<db, lock, rd, seed, wc, dirty, plan, walked, resp, faults, fkind, crashed>>

GetVersionCall(r) ==
  /\ pc[r] = "gv" /\ lock = r
  /\ walked' = [walked EXCEPT ![r] = @ + 1]
  /\ Goto(r, IF walked[r] + 1 < plan[r].walk THEN "gv"
             ELSE IF plan[r].cs # View(r) THEN "ss" ELSE "rel")
  /\ Log(r, "get_version")
  /\ UNCHANGED <<db, lock, rd, seed, wc, dirty, plan, resp, faults, fkind, crashed>>

GetSnapshotData(r) ==
  /\ pc[r] = "gsd" /\ lock = r
  /\ Goto(r, "rel") /\ Log(r, "get_snapshot_data")
  /\ UNCHANGED <<db, lock, rd, seed, wc, dirty, plan, walked, resp, faults, fkind, crashed>>

AddVersionW(r) ==
  /\ pc[r] = "av" /\ lock = r
  /\ WriteTo(r, plan[r].cs)
  /\ Goto(r, "commit") /\ Log(r, "add_version")
  /\ UNCHANGED <<lock, rd, seed, plan, walked, resp, faults, fkind, crashed>>

SetSnapshotW(r) ==
  /\ pc[r] = "ss" /\ lock = r
  /\ WriteTo(r, plan[r].cs)
  /\ Goto(r, "commit") /\ Log(r, "set_snapshot")
  /\ UNCHANGED <<lock, rd, seed, plan, walked, resp, faults, fkind, crashed>>

Commit(r) ==
  /\ pc[r] \in {"commit", "ccommit"} /\ lock = r
  /\ IF Backend = "sqlite" THEN db' = wc[r] ELSE UNCHANGED db
  \* SQLite ends the write transaction at COMMIT (the connection is closed later, at drop);
  \* the in-memory mutex guard lives until the transaction object is dropped
  /\ lock' = (IF Backend = "sqlite" THEN 0 ELSE lock)
  /\ dirty' = [dirty EXCEPT ![r] = FALSE]
  /\ Goto(r, IF pc[r] = "commit" THEN "rel" ELSE "crel")
  /\ Log(r, "commit")
  /\ UNCHANGED <<rd, seed, wc, plan, walked, resp, faults, fkind, crashed>>

(* the create-client transaction of the HTTP add-version handler *)
CreateGetClient(r) ==
  /\ pc[r] = "cgc" /\ lock = r
  /\ Goto(r, IF View(r).exists THEN "crel" ELSE "cnew")     \* already created by somebody else: nothing to do
  /\ plan' = [plan EXCEPT ![r] = NoPlan]
  /\ Log(r, "get_client")
  /\ UNCHANGED <<db, lock, rd, seed, wc, dirty, walked, resp, faults, fkind, crashed>>

NewClientW(r) ==
  /\ pc[r] = "cnew" /\ lock = r
  /\ IF View(r).exists /\ Backend = "inmemory"
       THEN \* "Client already exists": Err -> 500
            /\ plan' = [plan EXCEPT ![r] = [NoPlan EXCEPT !.resp = R0("error")]]
            /\ Goto(r, "crel")
            /\ UNCHANGED <<db, wc, dirty>>
       ELSE \* sqlite: INSERT OR REPLACE resets latest and snapshot columns; versions stay in their table
            /\ plan' = [plan EXCEPT ![r] = NoPlan]
            /\ WriteTo(r, [View(r) EXCEPT !.exists = TRUE, !.latest = Nil, !.snap = NoSnap])
            /\ Goto(r, "ccommit")
  /\ Log(r, "new_client")
  /\ UNCHANGED <<lock, rd, seed, walked, resp, faults, fkind, crashed>>

(***************************************************************************)
(* Faults and crashes                                                      *)
(***************************************************************************)
CallAt(l) == CASE l \in {"gc", "cgc"} -> "get_client" [] l = "gvbp" -> "get_version_by_parent" [] l = "gv" -> "get_version"
               [] l = "gsd" -> "get_snapshot_data" [] l = "av" -> "add_version" [] l = "ss" -> "set_snapshot"
               [] l = "cnew" -> "new_client" [] l \in {"commit", "ccommit"} -> "commit" [] OTHER -> "?"

(* the call at pc[r] returns Err; "after" = its effect was applied first *)
Fail(r, when) ==
  /\ faults < FaultBudget
  /\ pc[r] \in {"gc", "cgc", "gvbp", "gv", "gsd", "av", "ss", "cnew", "commit", "ccommit"} /\ lock = r
  /\ faults' = faults + 1
  /\ fkind' = [fkind EXCEPT ![r] = when]
  /\ plan' = [plan EXCEPT ![r] = [@ EXCEPT !.resp = R0("error")]]
  /\ IF when = "after" /\ pc[r] \in {"av", "ss"} THEN WriteTo(r, plan[r].cs)
     ELSE IF when = "after" /\ pc[r] = "cnew" THEN WriteTo(r, [View(r) EXCEPT !.exists = TRUE, !.latest = Nil, !.snap = NoSnap])
     ELSE IF when = "after" /\ pc[r] \in {"commit", "ccommit"}
       THEN /\ (IF Backend = "sqlite" THEN db' = wc[r] ELSE UNCHANGED db)
            /\ dirty' = [dirty EXCEPT ![r] = FALSE] /\ UNCHANGED wc
     ELSE UNCHANGED <<db, wc, dirty>>
  /\ Goto(r, IF pc[r] \in {"cgc", "cnew", "ccommit"} THEN "crel" ELSE "rel")
  /\ Log(r, "FAIL-" \o when \o "-" \o CallAt(pc[r]))
  /\ UNCHANGED <<lock, rd, seed, walked, resp, crashed>>

(* txn() itself fails (cannot open the database): no transaction was opened *)
FailBegin(r) ==
  /\ faults < FaultBudget
  /\ pc[r] \in {"wait", "cwait"}
  /\ faults' = faults + 1
  /\ fkind' = [fkind EXCEPT ![r] = "begin"]
  /\ resp' = [resp EXCEPT ![r] = R0("error")]
  /\ Goto(r, "done")
  /\ Log(r, "FAIL-begin")
  /\ UNCHANGED <<db, lock, rd, seed, wc, dirty, plan, walked, crashed>>

Crash ==
  /\ CrashOn /\ ~crashed /\ Backend = "sqlite"
  /\ \E r \in RIds : pc[r] # "done"
  /\ crashed' = TRUE
  /\ lock' = 0
  /\ pc' = [r \in RIds |-> IF pc[r] = "done" THEN "done" ELSE "lost"]
  /\ hist' = Append(hist, <<0, "CRASH">>)
  /\ UNCHANGED <<db, rd, seed, wc, dirty, plan, walked, resp, faults, fkind>>

(* partial-order reduction: once SQLite has committed, dropping the connection is invisible to the
   other requests; doing it at once is the most constrained real-time order *)
PendingDrop == {s \in RIds : Backend = "sqlite" /\ pc[s] \in {"rel", "crel"} /\ lock # s /\ fkind[s] = ""}

Next ==
  IF PendingDrop # {} THEN \E s \in PendingDrop : Release(s) ELSE
  \/ \E r \in RIds :
       \/ BeginCall(r) \/ Acquire(r) \/ Release(r)
       \/ GetClient(r) \/ GetVersionByParentCall(r) \/ GetVersionCall(r) \/ GetSnapshotData(r)
       \/ AddVersionW(r) \/ SetSnapshotW(r) \/ Commit(r)
       \/ CreateGetClient(r) \/ NewClientW(r)
       \/ Fail(r, "before") \/ Fail(r, "after") \/ FailBegin(r)
  \/ Crash

Spec == Init /\ [][Next]_vars
FairSpec == Spec /\ \A r \in RIds : WF_vars(BeginCall(r) \/ Acquire(r) \/ Release(r) \/ GetClient(r) \/ GetVersionByParentCall(r)
                                          \/ GetVersionCall(r) \/ GetSnapshotData(r) \/ AddVersionW(r) \/ SetSnapshotW(r)
                                          \/ Commit(r) \/ CreateGetClient(r) \/ NewClientW(r))

(***************************************************************************)
(* Properties                                                              *)
(***************************************************************************)
InTxn(r) == /\ pc[r] \notin {"start", "wait", "cstart", "cwait", "done", "lost"}
            /\ ~(Backend = "sqlite" /\ pc[r] \in {"rel", "crel"} /\ lock # r)   \* after COMMIT the transaction is over
AllDone == \A r \in RIds : pc[r] \in {"done", "lost"}

MutualExclusion == /\ Cardinality({r \in RIds : InTxn(r)}) <= 1
                   /\ \A r \in RIds : InTxn(r) => lock = r

(* real-time order: r finished before s started *)
StartIdx(r) == CHOOSE i \in DOMAIN hist : hist[i][1] = r /\ \A j \in 1..(i - 1) : hist[j][1] # r
EndIdx(r)   == CHOOSE i \in DOMAIN hist : hist[i][1] = r /\ \A j \in (i + 1)..Len(hist) : hist[j][1] # r
Before(r, s) == EndIdx(r) < StartIdx(s)

BeforeRel == {<<r, s>> \in RIds \X RIds : r # s /\ Before(r, s)}
FullReq(r) == [op |-> rd[r].op, c |-> C1, arg |-> Resolve(rd[r].argk), lvl |-> rd[r].lvl,
               tok |-> IF rd[r].op = "AddSnapshot" THEN 800 + r ELSE NewVid(r), vid |-> NewVid(r)]
Reqs == [r \in RIds |-> FullReq(r)]

NoFaults == faults = 0 /\ ~crashed

Inv_C03 == (AllDone /\ NoFaults) => C03_Round(Cfg, SeedState(seed), Reqs, resp, BeforeRel, db)

(* C05 (design level): with faults, a success was committed; an error left the state as before the
   request or (only if the failing call was the commit, after taking effect) as after it *)
SuccessKinds == {"ok", "conflict", "found", "nf", "gone", "snapok", "snap", "nosuchclient"}
Inv_C05 == (AllDone /\ ~crashed /\ NReq = 1) =>
             LET o == SeqApply(SeedState(seed), 1, ReqOf(1)) IN
             /\ resp[1].kind \in SuccessKinds => (db = o.cs /\ resp[1].kind = o.resp.kind)
             /\ resp[1].kind = "error" =>
                  \/ db = SeedState(seed)
                  \/ (rd[1].op = "AddVersion" /\ rd[1].lvl = "http" /\ db = [SeedState(seed) EXCEPT !.exists = TRUE])
                  \/ (fkind[1] = "after" /\ db = o.cs)
             /\ (Backend = "sqlite" => resp[1].kind # "panic")
             /\ lock = 0

(* C04 (design level): after a crash the committed state is the result of a prefix of whole
   transactions: every acknowledged request is in it, every lost one is all-or-nothing *)
Inv_C04 == (crashed /\ NReq = 1) =>
             LET o == SeqApply(SeedState(seed), 1, ReqOf(1)) IN
             /\ pc[1] = "done" => db = o.cs
             /\ pc[1] = "lost" => (db = SeedState(seed) \/ db = o.cs
                                   \/ db = [SeedState(seed) EXCEPT !.exists = TRUE])
             /\ ChainOK(db)

(* the lock is always released in the end (checked under FairSpec, no constraint) *)
Live_Done == <>(AllDone)
Live_LockFree == []<>(lock = 0)
=============================================================================
