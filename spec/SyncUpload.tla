----------------------------- MODULE SyncUpload -----------------------------
(***************************************************************************)
(* Uploads in flight: what the HTTP layer does with a request BODY.        *)
(*                                                                         *)
(* The two write endpoints (add-version, add-snapshot) receive their body  *)
(* piece by piece (server/src/api/add_version.rs, add_snapshot.rs: a loop  *)
(* over `payload.next().await` appending to a buffer) and only then call   *)
(* the protocol operation, which runs in ONE storage transaction.  While a *)
(* body is arriving the worker thread serves other connections: several    *)
(* uploads are in flight at once, on the same thread or on others.         *)
(*                                                                         *)
(* What the listed properties need from this layer (C06 bytes, C09         *)
(* isolation, C03 one-at-a-time):                                          *)
(*   Integrity   the bytes handed to the protocol operation are exactly    *)
(*               the pieces of that request, in order, nothing else        *)
(*   Sequential  the stored effects are those of the requests applied one  *)
(*               at a time in the order in which their bodies completed    *)
(*   NoHolding   no storage lock is held while a body is still arriving    *)
(*               (so every other request can be served meanwhile)          *)
(*                                                                         *)
(* The actions are the steps visible on the socket: Begin (request line    *)
(* and headers), Piece (one chunk), Apply (last chunk received: the        *)
(* operation runs and the response is sent), Probe (another request is     *)
(* served while uploads are in flight).  The harness's "Overlap" steps     *)
(* (harness/src/seq.rs:step_multi) record exactly these, and               *)
(* spec/TraceUpload.tla replays them as these actions.                     *)
(*                                                                         *)
(* EarlyTxn and SharedBuffer describe two handler designs that look        *)
(* harmless and are not (negative controls, and seeded changes C09-w4m1,   *)
(* C06-w4m2): opening the storage transaction before the body is read;     *)
(* assembling the body in a per-thread buffer.                             *)
(***************************************************************************)
EXTENDS Integers, Sequences, FiniteSets, TLC

CONSTANTS Reqs,          \* upload requests
          MaxPieces,     \* a body arrives in 1..MaxPieces pieces (chosen when the request begins)
          Workers,       \* worker threads 1..Workers
          EarlyTxn,      \* TRUE: the handler begins its storage transaction before reading the body (negative control)
          SharedBuffer   \* TRUE: the body is assembled in a buffer of the worker thread, not of the request (negative control)

VARIABLES phase,      \* r -> "idle" | "reading" | "done"
          total,      \* r -> number of pieces its body will arrive in (0 = not begun)
          worker,     \* r -> worker thread serving the connection (0 = none yet)
          sent,       \* r -> number of pieces received so far
          rbuf,       \* r -> the request's own buffer: sequence of pieces <<r, k>>
          wbuf,       \* w -> the worker thread's buffer (used when SharedBuffer)
          lock,       \* the storage write lock: 0 free, else the request holding it
          applied,    \* sequence of [req, body]: what the protocol operations were given, in commit order
          completed,  \* sequence of requests in the order their last piece arrived
          probes      \* number of other requests served while at least one upload was in flight

vars == <<phase, total, worker, sent, rbuf, wbuf, lock, applied, completed, probes>>

Body(r) == [k \in 1..total[r] |-> <<r, k>>]

Init ==
  /\ phase = [r \in Reqs |-> "idle"] /\ total = [r \in Reqs |-> 0] /\ worker = [r \in Reqs |-> 0] /\ sent = [r \in Reqs |-> 0]
  /\ rbuf = [r \in Reqs |-> <<>>] /\ wbuf = [w \in 1..Workers |-> <<>>]
  /\ lock = 0 /\ applied = <<>> /\ completed = <<>> /\ probes = 0

(* request line and headers arrive; the handler starts *)
Begin(r, w, n) ==
  /\ phase[r] = "idle" /\ n \in 1..MaxPieces
  /\ total' = [total EXCEPT ![r] = n]
  /\ EarlyTxn => lock = 0                       \* BEGIN IMMEDIATE / the mutex: waits while somebody holds it
  /\ phase' = [phase EXCEPT ![r] = "reading"]
  /\ worker' = [worker EXCEPT ![r] = w]
  /\ lock' = IF EarlyTxn THEN r ELSE lock
  /\ wbuf' = IF SharedBuffer THEN [wbuf EXCEPT ![w] = <<>>] ELSE wbuf     \* "clear the reused buffer"
  /\ UNCHANGED <<sent, rbuf, applied, completed, probes>>

(* one piece of the body arrives and is appended to the buffer the handler uses *)
Piece(r) ==
  /\ phase[r] = "reading" /\ sent[r] < total[r] - 1
  /\ sent' = [sent EXCEPT ![r] = @ + 1]
  /\ IF SharedBuffer THEN /\ wbuf' = [wbuf EXCEPT ![worker[r]] = Append(@, <<r, sent[r] + 1>>)]
                          /\ UNCHANGED rbuf
                     ELSE /\ rbuf' = [rbuf EXCEPT ![r] = Append(@, <<r, sent[r] + 1>>)]
                          /\ UNCHANGED wbuf
  /\ UNCHANGED <<phase, total, worker, lock, applied, completed, probes>>

(* the last piece arrives: the protocol operation runs in one transaction on what the buffer holds *)
Apply(r) ==
  /\ phase[r] = "reading" /\ sent[r] = total[r] - 1
  /\ lock \in {0, IF EarlyTxn THEN r ELSE 0}
  /\ LET last == <<r, total[r]>>
         body == IF SharedBuffer THEN Append(wbuf[worker[r]], last) ELSE Append(rbuf[r], last)
     IN applied' = Append(applied, [req |-> r, body |-> body])
  /\ completed' = Append(completed, r)
  /\ sent' = [sent EXCEPT ![r] = total[r]]
  /\ phase' = [phase EXCEPT ![r] = "done"]
  /\ lock' = 0
  /\ wbuf' = IF SharedBuffer THEN [wbuf EXCEPT ![worker[r]] = <<>>] ELSE wbuf
  /\ UNCHANGED <<total, worker, rbuf, probes>>

InFlight == {r \in Reqs : phase[r] = "reading"}

(* any other request (another client's read or write) is served now: it needs the storage lock for a moment *)
Probe ==
  /\ InFlight # {} /\ lock = 0
  /\ probes' = probes + 1
  /\ UNCHANGED <<phase, total, worker, sent, rbuf, wbuf, lock, applied, completed>>

Next == \/ \E r \in Reqs : (\E w \in 1..Workers, n \in 1..MaxPieces : Begin(r, w, n)) \/ Piece(r) \/ Apply(r)
        \/ Probe

Spec == Init /\ [][Next]_vars

(***************************************************************************)
(* Properties                                                              *)
(***************************************************************************)
Integrity  == \A i \in DOMAIN applied : applied[i].body = Body(applied[i].req)
Sequential == /\ Len(applied) = Len(completed)
              /\ \A i \in DOMAIN applied : applied[i].req = completed[i]
NoHolding  == InFlight # {} => lock = 0           \* equivalently: Probe is enabled whenever an upload is in flight
TypeOK     == /\ lock \in Reqs \cup {0}
              /\ \A r \in Reqs : sent[r] \in 0..total[r] /\ total[r] \in 0..MaxPieces
=============================================================================
