------------------------------ MODULE TraceConc ------------------------------
(***************************************************************************)
(* Judge of concurrent rounds recorded from the real code under the        *)
(* controlled scheduler (harness/src/conc.rs).  One event = one round:     *)
(* the observed seed state, the requests with the ids/tokens they used,    *)
(* their responses, the real-time order, the final state and the log of    *)
(* storage calls in lock order.  The predicates are those TLC checks on    *)
(* the SyncStorage model (ConcProps), evaluated on what the code did.      *)
(***************************************************************************)
EXTENDS Integers, Sequences, FiniteSets, TLC, Json, IOUtils, ConcProps

Recs == ndJsonDeserialize(IOEnv.TRACE)
N    == Len(Recs)

VARIABLES l, nviol
vars == <<l, nviol>>

SetOf(s) == {s[i] : i \in DOMAIN s}
CsOf(j)  == [exists |-> j.e, latest |-> j.l, versions |-> SetOf(j.v), snap |-> j.s]

(* two transactions are never open at the same time: between two "acquired" of different
   requests the first one must have passed its "release" *)
MutexOK(backend, log) ==
  \A i, j \in DOMAIN log :
     (i < j /\ log[i][2] = "acquired" /\ log[j][2] = "acquired" /\ log[i][1] # log[j][1]) =>
        \E k \in (i + 1)..(j - 1) :
            /\ log[k][1] = log[i][1]
            /\ \/ log[k][2] = "release"
               \/ (backend = "sqlite" /\ log[k][2] = "commit")   \* SQLite ends the write transaction at COMMIT

SeedBase(cs) == LET roots == {v.parent : v \in cs.versions} \ Vids(cs) IN
                IF roots = {} THEN Nil ELSE CHOOSE r \in roots : TRUE

Judge(e) ==
  LET seedcs == CsOf(e.seed)
      final  == CsOf(e.final)
      reqs   == e.reqs
      resps  == e.resps
      before == {<<e.before[i][1], e.before[i][2]>> : i \in DOMAIN e.before}
      rids   == DOMAIN reqs
      snapops == \E r \in rids : reqs[r].op \in {"AddSnapshot", "GetSnapshot"}
      lin    == Linearizable(e.cfg, seedcs, reqs, resps, before, final)
      noerr  == \A r \in rids : resps[r].kind \notin {"error", "panic", "timeout", "none"}
      accepted == {r \in rids : reqs[r].op = "AddVersion" /\ resps[r].kind = "ok"}
      checks == <<
        <<"C03", (~e.faulted) => ( MutexOK(e.backend, e.log) /\ noerr /\ lin /\ ChainOK(final) /\ e.other = e.other0 ) >>,
        <<"C11", (~e.faulted /\ snapops) => (noerr /\ lin) >>,
        <<"C08", (~e.faulted /\ \E r \in rids : reqs[r].op = "GetChildVersion") => (noerr /\ lin) >>,
        \* overlapping AddSnapshots: the outcome is that of one order, and the snapshot never moves backwards
        <<"C10", (~e.faulted /\ \E r \in rids : reqs[r].op = "AddSnapshot") =>
                   ( noerr /\ lin
                     /\ LET acc0 == WalkFrom(final.versions, SeedBase(final), Cardinality(final.versions) + 1)
                            rank(cs) == IF ~cs.snap.has THEN -1
                                        ELSE IF \E i \in DOMAIN acc0 : acc0[i].vid = cs.snap.vid
                                               THEN CHOOSE i \in DOMAIN acc0 : acc0[i].vid = cs.snap.vid ELSE 0
                        IN rank(final) >= rank(seedcs) ) >>,
        <<"C01", (~e.faulted) => ChainOK(final) >>,
        \* C02 on overlapping requests: two accepted uploads never share a parent; a rejection names a version that WAS the
        \* latest at some point of the round (the seed's latest or a version accepted in the round) - never an id nobody was
        \* issued; an accepted upload's parent was the latest at some point, or the client had no versions; and a round made
        \* of AddVersion requests only is explained by applying them one at a time
        <<"C02", (~e.faulted) =>
                   LET avs == {r \in rids : reqs[r].op = "AddVersion"}
                       everLatest == {seedcs.latest} \cup {resps[r].vid : r \in accepted}
                   IN /\ \A r, s \in accepted : (r # s /\ reqs[r].arg = reqs[s].arg) => FALSE
                      /\ \A r \in avs : resps[r].kind = "conflict" => (resps[r].vid \in everLatest /\ resps[r].vid # Nil)
                      /\ \A r \in accepted : reqs[r].arg \in everLatest \/ seedcs.versions = {}
                      /\ (avs = rids => (noerr /\ lin)) >>,
        \* GetChildVersion while a storage step fails: an answer that is not an error must still be the right one
        \* (a failed lookup must never be reported as "no such child" / "gone")
        <<"C08f", (e.faulted /\ Cardinality(rids) = 1 /\ reqs[1].op = "GetChildVersion" /\ resps[1].kind \notin {"error", "panic", "timeout"}) =>
                    RespMatches(UnitApply(e.cfg, seedcs, reqs[1], <<1, "m">>).resp, resps[1]) >>,
        \* GetSnapshot while a storage step fails: never "no snapshot" for a client that has one, never another snapshot;
        \* and the same server answers the next GetSnapshot as the stored state says
        <<"C11f", (e.faulted /\ Cardinality(rids) = 1 /\ reqs[1].op = "GetSnapshot") =>
                    /\ resps[1].kind \notin {"error", "panic", "timeout"} => RespMatches(UnitApply(e.cfg, seedcs, reqs[1], <<1, "m">>).resp, resps[1])
                    /\ final = seedcs
                    /\ FollowOK(e.cfg, final, [i \in DOMAIN e.follow |-> [req |-> e.follow[i].req, resp |-> e.follow[i].resp]], 1) >>,
        \* a request refused because the write lock could not be had (somebody else held it), or given up on because the disk was
        \* slow, leaves everything as it was - also once the slow call is over
        <<"C18f", (e.faulted /\ (e.lockbusy.n > 0 \/ e.iodelay.ms > 0) /\ Cardinality(rids) = 1 /\ resps[1].kind \in {"error", "refused"}) =>
                    (final = seedcs /\ e.other = e.other0) >>,
        <<"C05", e.faulted =>
                   ( Cardinality(rids) = 1
                     /\ C05_Round(e.cfg, seedcs, reqs[1], resps[1], final, [i \in DOMAIN e.follow |-> [req |-> e.follow[i].req, resp |-> e.follow[i].resp]],
                                 e.iofault.at > 0 \/ \E i \in DOMAIN e.log : e.log[i][2] = "FAIL-after-commit")
                     /\ e.other = e.other0 ) >>,
        <<"C07", (~e.faulted) =>
                   /\ seedcs.versions \subseteq final.versions
                   /\ \A r \in accepted : \E v \in final.versions :
                         v.vid = resps[r].vid /\ v.parent = reqs[r].arg /\ v.tok = reqs[r].tok
                   \* "every later request for the child of its parent returns that same version"
                   /\ \A r \in accepted : \E v \in SetOf(e.final.k) :
                         v.vid = resps[r].vid /\ v.parent = reqs[r].arg >>
      >>
      bad == {checks[i][1] : i \in {j \in DOMAIN checks : ~checks[j][2]}}
  IN /\ (\A n_ \in bad : PrintT(<<"VIOL", l, e.run, e.i, n_>>))
     /\ nviol' = nviol + (IF bad = {} THEN 0 ELSE 1)

Init == l = 1 /\ nviol = 0
Next == /\ l <= N /\ l' = l + 1 /\ Judge(Recs[l])
Spec == Init /\ [][Next]_vars

Judged == /\ PrintT(<<"JUDGED", TLCGet("stats").diameter - 1, N, TLCGet("stats").distinct>>)
          /\ TLCGet("stats").diameter - 1 = N
=============================================================================
