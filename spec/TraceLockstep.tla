---------------------------- MODULE TraceLockstep ----------------------------
(***************************************************************************)
(* Lock-step judge.  Each line of the trace pairs the canonical observable *)
(* of the same step in two executions of the REAL code:                    *)
(*   prop = "C13": one history on two storage variants (in-memory, SQLite, *)
(*                 SQLite with / without real reopen)                      *)
(*   prop = "C09": a client's step inside a multi-client history and in    *)
(*                 the projection of that history onto the client alone    *)
(* The property holds on a pair iff the two observables are equal.         *)
(***************************************************************************)
EXTENDS Integers, Sequences, TLC, Json, IOUtils

Recs == ndJsonDeserialize(IOEnv.TRACE)
N    == Len(Recs)

VARIABLES l, nviol
vars == <<l, nviol>>

Init == l = 1 /\ nviol = 0
Next ==
  /\ l <= N
  /\ l' = l + 1
  /\ LET e == Recs[l] IN
       /\ (e.a # e.b => PrintT(<<"VIOL", l, e.run, e.i, e.prop>>))
       /\ nviol' = nviol + (IF e.a = e.b THEN 0 ELSE 1)
Spec == Init /\ [][Next]_vars

Judged == /\ PrintT(<<"JUDGED", TLCGet("stats").diameter - 1, N, TLCGet("stats").distinct>>)
          /\ TLCGet("stats").diameter - 1 = N
=============================================================================
