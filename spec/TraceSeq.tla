------------------------------ MODULE TraceSeq ------------------------------
(***************************************************************************)
(* Trace validation, observer style: TLC reads an ndjson trace recorded    *)
(* from the REAL code by tcss-harness (one event per request: request,     *)
(* response, full projected state after it) and evaluates the SyncProps    *)
(* predicates - the same operator text TLC checks on the model - on every  *)
(* observed step.  A predicate that is false on an observed step is a      *)
(* violation of that property by the implementation; it is printed as      *)
(*    <<"VIOL", line, run, step index, name>>   (one line per predicate)  *)
(* and the run continues, so every event of the file is judged.            *)
(* "M_conf" (is the step one the implementation-shaped model allows?) is   *)
(* diagnostic only and is reported as a NOTE by the checker.               *)
(***************************************************************************)
EXTENDS Integers, Sequences, FiniteSets, TLC, Json, IOUtils, SyncImpl, SyncHttp

Recs == ndJsonDeserialize(IOEnv.TRACE)
N    == Len(Recs)

VARIABLES l,       \* next line of the trace
          obs,     \* observed state after the last event: client -> cs
          kids,    \* observed by-parent index: client -> set of records
          extra,   \* observed invisible rows: client -> Nat
          g,       \* ghost state derived from the observed responses
          issued,  \* ids returned by accepted AddVersions so far (all clients)
          pex,     \* previous exchange
          cfg,     \* configuration of the current run
          pend,    \* crash traces: the request in flight (Intent seen, no Ack yet), op "none" otherwise
          nviol    \* number of events with a violated predicate

vars == <<l, obs, kids, extra, g, issued, pex, cfg, pend, nviol>>

SetOf(s)   == {s[i] : i \in DOMAIN s}
CsOf(j)    == [exists |-> j.e, latest |-> j.l, versions |-> SetOf(j.v), snap |-> j.s]
StOfSt(st) == [c \in DOMAIN st |-> CsOf(st[c])]
StOf(e)    == StOfSt(e.st)
HasF(e, f) == f \in DOMAIN e
KidsOf(e)  == [c \in DOMAIN e.st |-> SetOf(e.st[c].k)]
ExtraOf(e) == [c \in DOMAIN e.st |-> e.st[c].x + e.st[c].nerr]

NullEx == [req |-> [op |-> "none", c |-> 0, arg |-> 0, tok |-> 0, lvl |-> "lib"],
           resp |-> [kind |-> "none", vid |-> 0, parent |-> 0, tok |-> 0, urg |-> ""]]

Init ==
  /\ l = 1
  /\ obs = <<>> /\ kids = <<>> /\ extra = <<>> /\ g = <<>>
  /\ issued = {} /\ pex = NullEx /\ cfg = [days |-> 0, versions |-> 0] /\ nviol = 0
  /\ pend = NullEx.req

ClientOps == {"NewClient", "AddVersion", "GetChildVersion", "AddSnapshot", "GetSnapshot", "Walk"}

(* the implementation-shaped model's answer for this request in the observed pre-state *)
ModelStep(pre, req, day, newid) ==
  LET cs == pre[req.c] IN
  CASE req.op = "NewClient"       -> [cs |-> StNewClient, resp |-> R0("created")]
    [] req.op = "AddVersion"      -> IF req.lvl = "http"
                                       THEN ApplyHttpAddVersion(cfg, cs, req.arg, req.tok, newid, day)
                                       ELSE ApplyAddVersion(cfg, cs, req.arg, req.tok, newid, day)
    [] req.op = "GetChildVersion" -> [cs |-> cs, resp |-> ApplyGetChildVersion(cs, req.arg)]
    [] req.op = "AddSnapshot"     -> ApplyAddSnapshot(5, cs, req.arg, req.tok, day)
    [] req.op = "GetSnapshot"     -> [cs |-> cs, resp |-> ApplyGetSnapshot(cs)]
    [] OTHER                      -> [cs |-> cs, resp |-> R0("none")]

(* library NoSuchClient and HTTP 404 are one response class *)
KindClass(k) == IF k = "nosuchclient" THEN "nf" ELSE k

Judge(e) ==
  LET req  == e.req
      resp == e.resp
      c    == req.c
      cl   == DOMAIN e.st
      \* a request refused by the allow-list is no protocol operation: it must change nothing (C18/C16)
      unl  == HasF(e, "allow") /\ e.allow.on /\ c \notin {e.allow.ids[i] : i \in DOMAIN e.allow.ids}
      isc  == req.op \in ClientOps /\ c \in cl /\ ~(unl /\ req.op # "NewClient")
  IN
  \* the observed post-state and the ghost are bound to primed variables FIRST, so that TLC
  \* evaluates them once; the predicates below read obs/obs' and g/g'
  /\ obs' = StOf(e)
  /\ kids' = KidsOf(e)
  /\ extra' = ExtraOf(e)
  /\ g' = IF isc /\ req.op # "Walk"
            THEN [g EXCEPT ![c] = GNext(g[c], req, resp, obs'[c], e.day)]
            ELSE g
  /\ issued' = IF req.op = "AddVersion" /\ resp.kind = "ok" THEN issued \cup {resp.vid} ELSE issued
  /\ pex' = [req |-> req, resp |-> resp]
  /\ UNCHANGED <<cfg, pend>>
  /\ LET pre  == obs
         post == obs'
         g2   == g'
         allv == UNION {Vids(pre[d]) : d \in cl}
         checks == <<
        <<"C01", /\ \A d \in cl : C01_State(g2[d], post[d])
                 /\ \A d \in cl : kids'[d] = post[d].versions /\ extra'[d] = 0
                 /\ (req.op = "Walk" /\ isc) => C01_Walk(g[c], e.walk.from, e.walk.seq, e.walk.term) >>,
        <<"C02", isc => C02_Step(pre[c], post[c], allv, issued, req, resp) >>,
        \* ... "every payload from one byte up to the size limit": an upload the harness classed as well-formed (it arrives as a
        \* protocol operation, not as a raw request) from a client the allow-list admits is answered by the protocol - accepted,
        \* conflict, declined - never turned away
        <<"C06", isc => ( /\ C06_Step(g[c], req, resp)
                          /\ ( ( req.op \in {"AddVersion", "AddSnapshot"} /\ req.tok > 0
                                 /\ ~(HasF(e, "allow") /\ e.allow.on /\ req.c \notin {e.allow.ids[k_] : k_ \in DOMAIN e.allow.ids}) )
                               => resp.kind \notin {"refused", "panic"} ) ) >>,
        <<"C07", /\ \A d \in cl : C07_State(g2[d], pre[d], post[d])
                 /\ isc => C07_Read(g[c], req, resp)
                 /\ (req.op = "Walk" /\ isc) =>
                       \A i \in DOMAIN e.walk.seq : e.walk.seq[i] \in AccSet(g[c].acc) >>,
        <<"C08", isc => ( C08_Step(pre[c], req, resp)
                          /\ C08_Pair(pex.req, pex.resp, req, resp) ) >>,
        <<"C09", isc => C09_Step(pre, post, cl, req, resp) >>,
        <<"C10", isc => ( C10_Step(g[c], pre[c], post[c], req, resp, e.day)
                          /\ C10_Mono(g[c], g2[c], pre[c], post[c]) ) >>,
        <<"C11", /\ isc => C11_Step(g[c], pre[c], req, resp)
                 /\ \A d \in cl : C11_State(g2[d], post[d])
                 /\ (req.op = "Walk" /\ isc) => C11_Walk(g[c], e.walk.from, e.walk.seq, e.walk.term) >>,
        <<"C12", /\ isc => C12_Step(cfg, pre[c], req, resp, e.day)
                 /\ \A d \in cl : C12_Counter(g2[d], post[d]) >>,
        <<"C18", IF isc THEN C18_Step(g[c], pre, post, req, resp) ELSE post = pre >>,
        <<"C13", req.op = "Reopen" => resp.kind = "reopened" >>,      \* closing and reopening (or restarting) succeeds
        <<"C14", (HasF(e, "twin") /\ HasF(e, "http")) =>
                    C14_Step(req.op, e.twin.resp, StOfSt(e.twin.st), resp, post, e.http) >>,
        <<"C15", HasF(e, "hg") =>
                    ( HasF(e, "http") /\ C15_Step(e.hg, e.http, resp, pre, post) ) >>,
        <<"C16", (HasF(e, "allow") /\ HasF(e, "http")) =>
                    ( /\ C16_Step(e.allow, IF HasF(e, "hg") THEN e.hg.c ELSE req.c,
                                  IF HasF(e, "hg") THEN e.hg.cid ELSE "valid",
                                  IF HasF(e, "hg") THEN IsProto(e.hg.route) ELSE TRUE,
                                  IF HasF(e, "hg") THEN e.hg.cls = "yes" ELSE TRUE, e.http, e.ntxn, pre, post)
                      \* "listed clients are served exactly as if no list existed": under a list, a listed client's exchange
                      \* carries what the library twin (no list, twin storage) answers, and leaves the state the twin has
                      /\ ( (e.allow.on /\ HasF(e, "twin") /\ ~HasF(e, "hg") /\ isc) =>
                             C14_Step(req.op, e.twin.resp, StOfSt(e.twin.st), resp, post, e.http) ) ) >>,
        <<"C20", HasF(e, "http") => C20_Step(e.http) >>,
        <<"M_conf", (isc /\ req.op # "Walk") =>
                       LET ms == ModelStep(pre, req, e.day, resp.vid) IN
                       ( KindClass(ms.resp.kind) = KindClass(resp.kind)
                         /\ ms.resp.vid = resp.vid /\ ms.resp.urg = resp.urg
                         /\ post[c] = ms.cs ) >>,
        <<"M_ghost", \A d \in cl : post[d] = GState(g2[d]) >>
         >>
         bad == {checks[i][1] : i \in {j \in DOMAIN checks : ~checks[j][2]}}
     IN /\ (\A n_ \in bad : PrintT(<<"VIOL", l, e.run, e.i, n_>>))
        /\ nviol' = nviol + (IF bad = {} THEN 0 ELSE 1)

Reset(e) ==
  /\ obs' = StOf(e)
  /\ kids' = KidsOf(e)
  /\ extra' = ExtraOf(e)
  /\ g' = [c \in DOMAIN e.st |-> GAbsent]
  /\ issued' = {}
  /\ pex' = NullEx
  /\ cfg' = e.cfg
  /\ (StOf(e) # [c \in DOMAIN e.st |-> Absent] => PrintT(<<"VIOL", l, e.run, e.i, "M_reset">>))
  /\ pend' = NullEx.req
  /\ UNCHANGED nviol

(***************************************************************************)
(* Crash traces (C04).  The history process writes an Intent before and an *)
(* Ack after every request and makes no state dumps; it is killed, or the  *)
(* machine "loses power", at some file-system call.  The image is opened   *)
(* by the real code in a fresh process: Recovered carries the integrity    *)
(* check and the projected state.  The ghost knows what was acknowledged.  *)
(***************************************************************************)
Intent(e) ==
  /\ pend' = e.req
  /\ UNCHANGED <<obs, kids, extra, g, issued, pex, cfg, nviol>>

Ack(e) ==
  LET c == e.req.c
      \* no dump in the history process: the state is the one the ghost implies
      guess == [GState(g[c]) EXCEPT !.exists = @ \/ (e.req.op = "AddVersion" /\ e.req.lvl = "http")]
      g2 == [g EXCEPT ![c] = GNext(g[c], e.req, e.resp, guess, e.day)]
  IN /\ g' = g2
     /\ obs' = [d \in DOMAIN g2 |-> GState(g2[d])]
     /\ kids' = [d \in DOMAIN g2 |-> GState(g2[d]).versions]
     /\ issued' = IF e.req.op = "AddVersion" /\ e.resp.kind = "ok" THEN issued \cup {e.resp.vid} ELSE issued
     /\ pex' = [req |-> e.req, resp |-> e.resp]
     /\ pend' = NullEx.req
     /\ ((e.resp.kind \in {"error", "panic", "timeout"}) => PrintT(<<"VIOL", l, e.run, e.i, "C04">>))
     /\ UNCHANGED <<extra, cfg, nviol>>

(* the states the client of the in-flight request may be found in: untouched, completely applied,
   or - for the three-transaction HTTP AddVersion of an unknown client - the empty client record *)
PendingApplied(gc, q, postc) ==
  LET base == [GState(gc) EXCEPT !.exists = TRUE] IN
  CASE q.op = "AddVersion" /\ (gc.exists \/ q.lvl = "http") /\ AVAccepts(GState(gc), q.arg) ->
         {StAddVersion(base, postc.latest, q.arg, q.tok)}
    [] q.op = "AddSnapshot" /\ gc.exists /\ SnapAccepts(gc, q.arg) ->
         {StSetSnapshot(GState(gc), q.arg, q.tok, 0)}
    [] OTHER -> {}

Recovered(e) ==
  LET post == StOf(e)
      cl   == DOMAIN e.st
      pc_  == pend.c
      inflight == pend.op \in {"AddVersion", "AddSnapshot"} /\ pc_ \in cl
      applied == IF inflight THEN PendingApplied(g[pc_], pend, post[pc_]) ELSE {}
      isApplied == inflight /\ post[pc_] \in applied /\ post[pc_] # GState(g[pc_])
      fresh == post[pc_].latest \notin issued /\ post[pc_].latest # Nil
      okc(d) == \/ post[d] = GState(g[d])
                \/ (inflight /\ d = pc_ /\ post[d] \in applied /\ (pend.op = "AddVersion" => fresh))
                \/ (inflight /\ d = pc_ /\ pend.op = "AddVersion" /\ pend.lvl = "http" /\ ~g[d].exists
                     /\ post[d] = StNewClient)
      g2 == IF isApplied
              THEN [g EXCEPT ![pc_] = GNext(g[pc_], pend,
                                            IF pend.op = "AddVersion" THEN Resp("ok", post[pc_].latest, 0, 0, "none") ELSE R0("snapok"),
                                            post[pc_], 0)]
              ELSE [d \in cl |-> [g[d] EXCEPT !.exists = post[d].exists]]
      good == /\ e.integrity = "ok"
              /\ \A d \in cl : okc(d)
              /\ \A d \in cl : KidsOf(e)[d] = post[d].versions /\ ExtraOf(e)[d] = 0
              /\ \A d \in cl : C01_State(g2[d], post[d]) /\ C11_State(g2[d], post[d])
  IN /\ (~good => PrintT(<<"VIOL", l, e.run, e.i, "C04">>))
     /\ nviol' = nviol + (IF good THEN 0 ELSE 1)
     /\ obs' = post /\ kids' = KidsOf(e) /\ extra' = ExtraOf(e)
     /\ g' = g2
     /\ issued' = IF isApplied /\ pend.op = "AddVersion" THEN issued \cup {post[pc_].latest} ELSE issued
     /\ pend' = NullEx.req
     /\ pex' = NullEx
     /\ UNCHANGED cfg

Next ==
  /\ l <= N
  /\ l' = l + 1
  /\ LET e == Recs[l] IN
       CASE e.ev = "Reset"     -> Reset(e)
         [] e.ev = "Intent"    -> Intent(e)
         [] e.ev = "Ack"       -> Ack(e)
         [] e.ev = "Crash"     -> UNCHANGED <<obs, kids, extra, g, issued, pex, cfg, pend, nviol>>
         [] e.ev = "Recovered" -> IF e.st = <<>> THEN /\ PrintT(<<"VIOL", l, e.run, e.i, "C04">>)
                                                     /\ UNCHANGED <<obs, kids, extra, g, issued, pex, cfg, pend, nviol>>
                                  ELSE Recovered(e)
         [] OTHER              -> Judge(e)

Spec == Init /\ [][Next]_vars

(* the whole file was consumed: one state per line plus the initial state *)
Judged == /\ PrintT(<<"JUDGED", TLCGet("stats").diameter - 1, N, TLCGet("stats").distinct>>)
          /\ TLCGet("stats").diameter - 1 = N
=============================================================================
