------------------------------ MODULE TraceSeqP ------------------------------
(***************************************************************************)
(* Trace validation, observer style: TLC reads an ndjson trace recorded    *)
(* from the REAL code by tcss-harness (one event per request: request,     *)
(* response, full projected state after it) and evaluates the SyncProps    *)
(* predicates - the same operator text TLC checks on the model - on every  *)
(* observed step.  A predicate that is false on an observed step is a      *)
(* violation of that property by the implementation; it is printed as      *)
(*    <<"VIOL", line, run, step index, {names}>>                           *)
(* and the run continues, so every event of the file is judged.            *)
(* "M_conf" (is the step one the implementation-shaped model allows?) is   *)
(* diagnostic only and is reported as a NOTE by the checker.               *)
(***************************************************************************)
EXTENDS Integers, Sequences, FiniteSets, TLC, Json, IOUtils, SyncImpl

Recs == ndJsonDeserialize(IOEnv.TRACE)
N    == Len(Recs)

VARIABLES l,       \* next line of the trace
          obs,     \* observed state after the last event: client -> cs
          kids,    \* observed by-parent index: client -> set of records
          extra,   \* observed invisible rows: client -> Nat
          g,       \* ghost state derived from the observed responses
          issued,  \* ids returned by accepted AddVersions so far (all clients)
          pex,     \* previous exchange
          cfg,     \* configuration of the current run
          nviol    \* number of events with a violated predicate

vars == <<l, obs, kids, extra, g, issued, pex, cfg, nviol>>

SetOf(s)   == {s[i] : i \in DOMAIN s}
CsOf(j)    == [exists |-> j.e, latest |-> j.l, versions |-> SetOf(j.v), snap |-> j.s]
StOf(e)    == [c \in DOMAIN e.st |-> CsOf(e.st[c])]
KidsOf(e)  == [c \in DOMAIN e.st |-> SetOf(e.st[c].k)]
ExtraOf(e) == [c \in DOMAIN e.st |-> e.st[c].x + e.st[c].nerr]

NullEx == [req |-> [op |-> "none", c |-> 0, arg |-> 0, tok |-> 0, lvl |-> "lib"],
           resp |-> [kind |-> "none", vid |-> 0, parent |-> 0, tok |-> 0, urg |-> ""]]

Init ==
  /\ l = 1
  /\ obs = <<>> /\ kids = <<>> /\ extra = <<>> /\ g = <<>>
  /\ issued = {} /\ pex = NullEx /\ cfg = [days |-> 0, versions |-> 0] /\ nviol = 0

ClientOps == {"NewClient", "AddVersion", "GetChildVersion", "AddSnapshot", "GetSnapshot", "Walk"}

(* the implementation-shaped model's answer for this request in the observed pre-state *)
ModelStep(pre, req, day, newid) ==
  LET cs == pre[req.c] IN
  CASE req.op = "NewClient"       -> [cs |-> StNewClient, resp |-> R0("created")]
    [] req.op = "AddVersion"      -> IF req.lvl = "http"
                                       THEN ApplyHttpAddVersion(cfg, cs, req.arg, req.tok, newid, day)
                                       ELSE ApplyAddVersion(cfg, cs, req.arg, req.tok, newid, day)
    [] req.op = "GetChildVersion" -> [cs |-> cs, resp |-> ApplyGetChildVersion(cs, req.arg)]
    [] req.op = "AddSnapshot"     -> ApplyAddSnapshot(5, cs, req.arg, req.tok, day)
    [] req.op = "GetSnapshot"     -> [cs |-> cs, resp |-> ApplyGetSnapshot(cs)]
    [] OTHER                      -> [cs |-> cs, resp |-> R0("none")]

(* library NoSuchClient and HTTP 404 are one response class *)
KindClass(k) == IF k = "nosuchclient" THEN "nf" ELSE k

Judge(e) ==
  LET req  == e.req
      resp == e.resp
      c    == req.c
      cl   == DOMAIN e.st
      isc  == req.op \in ClientOps /\ c \in cl
  IN
  \* the observed post-state and the ghost are bound to primed variables FIRST, so that TLC
  \* evaluates them once; the predicates below read obs/obs' and g/g'
  /\ obs' = StOf(e)
  /\ kids' = KidsOf(e)
  /\ extra' = ExtraOf(e)
  /\ g' = IF isc /\ req.op # "Walk"
            THEN [g EXCEPT ![c] = GNext(g[c], req, resp, obs'[c], e.day)]
            ELSE g
  /\ issued' = IF req.op = "AddVersion" /\ resp.kind = "ok" THEN issued \cup {resp.vid} ELSE issued
  /\ pex' = [req |-> req, resp |-> resp]
  /\ UNCHANGED cfg
  /\ LET pre  == obs
         post == obs'
         g2   == g'
         allv == UNION {Vids(pre[d]) : d \in cl}
         checks == <<
        <<"M_ghost", \A d \in cl : post[d] = GState(g2[d]) >>
         >>
         bad == {checks[i][1] : i \in {j \in DOMAIN checks : ~checks[j][2]}}
     IN /\ (bad # {} => PrintT(<<"VIOL", l, e.run, e.i, bad>>))
        /\ nviol' = nviol + (IF bad = {} THEN 0 ELSE 1)

Reset(e) ==
  /\ obs' = StOf(e)
  /\ kids' = KidsOf(e)
  /\ extra' = ExtraOf(e)
  /\ g' = [c \in DOMAIN e.st |-> GAbsent]
  /\ issued' = {}
  /\ pex' = NullEx
  /\ cfg' = e.cfg
  /\ (StOf(e) # [c \in DOMAIN e.st |-> Absent] => PrintT(<<"VIOL", l, e.run, e.i, {"M_reset"}>>))
  /\ UNCHANGED nviol

Next ==
  /\ l <= N
  /\ l' = l + 1
  /\ LET e == Recs[l] IN IF e.ev = "Reset" THEN Reset(e) ELSE Judge(e)

Spec == Init /\ [][Next]_vars

(* the whole file was consumed: one state per line plus the initial state *)
Judged == /\ PrintT(<<"JUDGED", TLCGet("stats").diameter - 1, N, TLCGet("stats").distinct>>)
          /\ TLCGet("stats").diameter - 1 = N
=============================================================================
