SPECIFICATION Spec
POSTCONDITION Judged
CHECK_DEADLOCK FALSE
