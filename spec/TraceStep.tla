------------------------------ MODULE TraceStep ------------------------------
(***************************************************************************)
(* Validation of the REPOSITORY'S OWN TEST SUITE against the               *)
(* specification.  With the hook of core/src/verif.rs compiled in          *)
(* (--cfg tcss_verif), every protocol operation a test performs on a       *)
(* `Server` appends one self-contained event                               *)
(*     {pre-state, request, response, post-state, configuration}           *)
(* (ids and payloads renamed inside the event; snapshot day = minus its    *)
(* age in days, the event happens on day 0).  The tests build their start  *)
(* states by writing the storage directly, so the history is not known:    *)
(* the ghost is reconstructed from the pre-state when that state is a      *)
(* well-formed chain; predicates that need a history are applied only      *)
(* then.  The predicates are those of SyncProps - the tests' own           *)
(* assertions are replaced by "every property holds on every step".        *)
(***************************************************************************)
EXTENDS Integers, Sequences, FiniteSets, TLC, Json, IOUtils, SyncImpl

Recs == ndJsonDeserialize(IOEnv.TRACE)
N    == Len(Recs)

VARIABLES l, nviol
vars == <<l, nviol>>

SetOf(s) == {s[i] : i \in DOMAIN s}
CsOf(j)  == [exists |-> j.e, latest |-> j.l, versions |-> SetOf(j.v), snap |-> j.s]

(* the id a chain starts from: the parent that is not itself a stored version *)
BaseOf(cs) == LET roots == {v.parent : v \in cs.versions} \ Vids(cs) IN
              IF Cardinality(roots) = 1 THEN CHOOSE r \in roots : TRUE ELSE Nil

GhostOf(cs) ==
  [exists |-> cs.exists,
   acc    |-> WalkFrom(cs.versions, BaseOf(cs), Cardinality(cs.versions) + 1),
   snap   |-> [has |-> cs.snap.has, vid |-> cs.snap.vid, tok |-> cs.snap.tok, day |-> cs.snap.day],
   since  |-> cs.snap.since]

(* the hand-built start state is a well-formed chain (one base, walk covers all versions, latest at its end) *)
WF(cs) == cs.exists /\ C01_State(GhostOf(cs), cs)
               /\ (cs.snap.has => cs.snap.vid \in Vids(cs) \cup {BaseOf(cs)})

Judge(e) ==
  LET pre  == CsOf(e.pre)
      post == CsOf(e.post)
      req  == e.req
      resp == e.resp
      gpre == GhostOf(pre)
      g2   == GNext(gpre, req, resp, post, 0)
      hist == WF(pre)                         \* history-based predicates apply
      checks == <<
        <<"C02", C02_Step(pre, post, Vids(pre), Vids(pre), req, resp) >>,
        <<"C07", pre.versions \subseteq post.versions >>,
        <<"C08", C08_Step(pre, req, resp) >>,
        <<"C12", C12_Step(e.cfg, pre, req, resp, 0) >>,
        <<"C01", hist => C01_State(g2, post) >>,
        <<"C06", hist => C06_Step(gpre, req, resp) >>,
        <<"C10", hist => ( C10_Step(gpre, pre, post, req, resp, 0) /\ C10_Mono(gpre, g2, pre, post) ) >>,
        <<"C11", hist => C11_Step(gpre, pre, req, resp) >>,
        <<"C18", hist => C18_Step(gpre, <<pre>>, <<post>>, req, resp) >>,
        <<"M_dump", ~e.pre.err /\ ~e.post.err >>
      >>
      bad == {checks[i][1] : i \in {j \in DOMAIN checks : ~checks[j][2]}}
  IN /\ (\A n_ \in bad : PrintT(<<"VIOL", l, l, 0, n_>>))
     /\ nviol' = nviol + (IF bad = {} THEN 0 ELSE 1)

Init == l = 1 /\ nviol = 0
Next == /\ l <= N /\ l' = l + 1 /\ Judge(Recs[l])
Spec == Init /\ [][Next]_vars

Judged == /\ PrintT(<<"JUDGED", TLCGet("stats").diameter - 1, N, TLCGet("stats").distinct>>)
          /\ TLCGet("stats").diameter - 1 = N
=============================================================================
