----------------------------- MODULE TraceStorage -----------------------------
(***************************************************************************)
(* Conformance-style trace validation of the L1 model: the storage calls   *)
(* the REAL code made in a concurrent round (the gate log of               *)
(* harness/src/conc.rs: request, call name, in lock order) are replayed    *)
(* as the actions of SyncStorage.  Every logged call must be the enabled   *)
(* action of that request in the model state reached so far - a second     *)
(* "acquired" while the lock is held, a write outside a transaction, a     *)
(* request that opens another transaction than its program has, are        *)
(* rejected by the specification itself - and at the end of the round the  *)
(* model's responses and committed state must be the observed ones.        *)
(* One file holds many rounds of one (backend, number of requests); a      *)
(* round that cannot be replayed is reported                               *)
(*     <<"NOCONF", line, run, reason>>                                     *)
(* and skipped.  A rejection is a model/code divergence (diagnostic); the  *)
(* property verdicts come from the predicates of ConcProps (TraceConc).    *)
(***************************************************************************)
EXTENDS MC_Conc, IOUtils

Recs == ndJsonDeserialize(IOEnv.TRACE)
N    == Len(Recs)

VARIABLES l, skipping, nbad
tvars == <<vars, l, skipping, nbad>>

OneSeed  == {Seed0}                                   \* Init needs some seed / shapes; StartRound sets the real ones
OneShape == {Q("GetSnapshot", "nil", "http", 1)}

SeedByName(n) == CASE n = "Seed0" -> Seed0 [] n = "Seed1" -> Seed1 [] n = "Seed2" -> Seed2 [] n = "Seed2b" -> Seed2b
                   [] n = "Seed3" -> Seed3 [] n = "Seed4" -> Seed4 [] n = "Seed6" -> Seed6 [] OTHER -> Seed0

(* BeginCall without the partial-order reduction of the model-checking runs *)
BeginCallU(r) ==
  /\ pc[r] \in {"start", "cstart"}
  /\ Goto(r, IF pc[r] = "start" THEN "wait" ELSE "cwait")
  /\ Log(r, "txn")
  /\ UNCHANGED <<db, lock, rd, seed, wc, dirty, plan, walked, resp, faults, fkind, crashed>>

ActionFor(r, call) ==
  CASE call = "txn"                   -> BeginCallU(r)
    [] call = "acquired"              -> Acquire(r)
    [] call = "get_client"            -> IF pc[r] = "cgc" THEN CreateGetClient(r) ELSE GetClient(r)
    [] call = "get_version_by_parent" -> GetVersionByParentCall(r)
    [] call = "get_version"           -> GetVersionCall(r)
    [] call = "get_snapshot_data"     -> GetSnapshotData(r)
    [] call = "add_version"           -> AddVersionW(r)
    [] call = "set_snapshot"          -> SetSnapshotW(r)
    [] call = "new_client"            -> NewClientW(r)
    [] call = "commit"                -> Commit(r)
    [] call = "release"               -> Release(r)
    [] OTHER                          -> UNCHANGED vars      \* "released", bookkeeping entries

StartRound(e) ==
  /\ seed' = SeedByName(e.seedname)
  /\ db' = SeedState(SeedByName(e.seedname))
  /\ rd' = [r \in RIds |-> Q(e.shapes[r].op, e.shapes[r].argk, e.shapes[r].lvl, r)]
  /\ lock' = 0
  /\ pc' = [r \in RIds |-> "start"]
  /\ wc' = [r \in RIds |-> Absent]
  /\ dirty' = [r \in RIds |-> FALSE]
  /\ plan' = [r \in RIds |-> NoPlan]
  /\ walked' = [r \in RIds |-> 0]
  /\ resp' = [r \in RIds |-> R0("none")]
  /\ faults' = 0 /\ fkind' = [r \in RIds |-> ""] /\ crashed' = FALSE /\ hist' = <<>>

(* observed outcome of the round against the model's *)
Shape(cs) == [e |-> cs.exists, n |-> Cardinality(cs.versions), l0 |-> cs.latest = Nil, s |-> cs.snap.has,
              sv |-> IF cs.snap.has THEN cs.snap.vid ELSE 0, since |-> IF cs.snap.has THEN cs.snap.since ELSE 0]
ObsShape(j) == [e |-> j.e, n |-> Len(j.v), l0 |-> j.l = Nil, s |-> j.s.has,
                sv |-> IF j.s.has THEN j.s.vid ELSE 0, since |-> IF j.s.has THEN j.s.since ELSE 0]
EndOK(e) ==
  /\ \A r \in RIds : pc[r] = "done"
  /\ \A r \in RIds : KindClass(resp[r].kind) = KindClass(e.kinds[r])
  /\ Shape(db).e = ObsShape(e.final).e /\ Shape(db).n = ObsShape(e.final).n
  /\ Shape(db).l0 = ObsShape(e.final).l0 /\ Shape(db).s = ObsShape(e.final).s
  /\ Shape(db).since = ObsShape(e.final).since

TNext ==
  /\ l <= N
  /\ LET e == Recs[l] IN
     IF e.t = "start" THEN
        /\ StartRound(e) /\ skipping' = FALSE /\ l' = l + 1 /\ UNCHANGED nbad
     ELSE IF skipping THEN
        /\ l' = l + 1 /\ UNCHANGED <<vars, skipping, nbad>>
     ELSE IF e.t = "call" THEN
        IF ENABLED ActionFor(e.r, e.call)
          THEN /\ ActionFor(e.r, e.call) /\ l' = l + 1 /\ UNCHANGED <<skipping, nbad>>
          ELSE /\ PrintT(<<"NOCONF", l, e.run, e.r, e.call>>)
               /\ skipping' = TRUE /\ nbad' = nbad + 1 /\ l' = l + 1 /\ UNCHANGED vars
     ELSE \* "end"
        /\ (~EndOK(e) => PrintT(<<"NOCONF", l, e.run, 0, "outcome">>))
        /\ nbad' = nbad + (IF EndOK(e) THEN 0 ELSE 1)
        /\ l' = l + 1 /\ UNCHANGED <<vars, skipping>>

TInit == Init /\ l = 1 /\ skipping = TRUE /\ nbad = 0
TSpec == TInit /\ [][TNext]_tvars

Track == TLCSet(43, l)
Accepted == /\ PrintT(<<"STORAGERESULT", TLCGet(43), N>>)
            /\ TLCGet(43) = N + 1
=============================================================================
