SPECIFICATION TSpec
CONSTANTS
  Reqs = {1, 2, 3, 4, 5, 6}
  MaxPieces = 6
  Workers = 1
  EarlyTxn = FALSE
  SharedBuffer = FALSE
INVARIANTS Track Integrity Sequential NoHolding
POSTCONDITION Accepted
CHECK_DEADLOCK FALSE
