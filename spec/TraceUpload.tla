----------------------------- MODULE TraceUpload -----------------------------
(***************************************************************************)
(* Conformance of the HTTP upload path to spec/SyncUpload.tla.             *)
(*                                                                         *)
(* The harness's "Overlap" steps drive 2-3 chunked uploads over their own  *)
(* connections to one in-process HttpServer, piece by piece in a planned   *)
(* interleaving, serve other requests in between, and record what they     *)
(* did and saw (lib/engines.py:upload_conformance flattens the records):   *)
(*   start                      a new group of uploads (the model resets)  *)
(*   begin  r n                 request r sent its head; body in n pieces  *)
(*   piece  r                   r sent its next piece (not the last one)   *)
(*   probe  ok                  another request was served / was not       *)
(*   apply  r obs               r sent its last piece and was answered;    *)
(*                              obs = "intact"  the stored bytes are r's   *)
(*                                    "altered" they are something else    *)
(*                                    "noinfo"  the protocol declined it   *)
(*                                    "error"   no answer / a 5xx          *)
(* Each line is replayed as the SyncUpload action of that name (IsEvent /\ *)
(* SpecAction); a line whose action is not enabled, or whose observation   *)
(* the model's next state does not explain, is reported (NOCONF) and the   *)
(* group is skipped.  With EarlyTxn = SharedBuffer = FALSE the model       *)
(* serves every probe and applies intact bodies only.                      *)
(***************************************************************************)
EXTENDS SyncUpload, Json, IOUtils

Recs == ndJsonDeserialize(IOEnv.TRACE)
N    == Len(Recs)

VARIABLES l, skipping, nbad
tvars == <<vars, l, skipping, nbad>>

Reset ==
  /\ phase' = [r \in Reqs |-> "idle"] /\ total' = [r \in Reqs |-> 0] /\ worker' = [r \in Reqs |-> 0] /\ sent' = [r \in Reqs |-> 0]
  /\ rbuf' = [r \in Reqs |-> <<>>] /\ wbuf' = [w \in 1..Workers |-> <<>>]
  /\ lock' = 0 /\ applied' = <<>> /\ completed' = <<>> /\ probes' = 0

ActionFor(e) ==
  CASE e.t = "begin" -> \E w \in 1..Workers : Begin(e.r, w, e.n)
    [] e.t = "piece" -> Piece(e.r)
    [] e.t = "probe" -> e.ok /\ Probe                      \* the model always serves: an unserved probe has no action
    [] e.t = "apply" -> /\ e.obs \in {"intact", "noinfo"}  \* the model only ever stores the request's own bytes, and answers
                        /\ Apply(e.r)
                        /\ LET a == applied'[Len(applied')] IN a.req = e.r /\ a.body = Body(e.r)
    [] OTHER         -> FALSE

TNext ==
  /\ l <= N
  /\ LET e == Recs[l] IN
     IF e.t = "start" THEN
        /\ Reset /\ skipping' = FALSE /\ l' = l + 1 /\ UNCHANGED nbad
     ELSE IF skipping THEN
        /\ l' = l + 1 /\ UNCHANGED <<vars, skipping, nbad>>
     ELSE IF e.r \notin Reqs \cup {0} THEN
        /\ PrintT(<<"TOOL", l, "request number outside Reqs">>) /\ skipping' = TRUE /\ l' = l + 1 /\ UNCHANGED <<vars, nbad>>
     ELSE IF ENABLED ActionFor(e)
        THEN /\ ActionFor(e) /\ l' = l + 1 /\ UNCHANGED <<skipping, nbad>>
        ELSE /\ PrintT(<<"NOCONF", l, e.run, e.i, e.t>>)
             /\ skipping' = TRUE /\ nbad' = nbad + 1 /\ l' = l + 1 /\ UNCHANGED vars

TInit == Init /\ l = 1 /\ skipping = TRUE /\ nbad = 0
TSpec == TInit /\ [][TNext]_tvars

(* the model's invariants hold along every replayed behaviour (they are checked as INVARIANTS of this spec) *)
Track == TLCSet(44, l)
Accepted == /\ PrintT(<<"UPLOADRESULT", TLCGet(44), N>>)
            /\ TLCGet(44) = N + 1
=============================================================================
