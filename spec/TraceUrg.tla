------------------------------ MODULE TraceUrg ------------------------------
(***************************************************************************)
(* Judge of the C12 grid: each event is one real add_version made with a   *)
(* stored snapshot of a given age and versions-since count under given     *)
(* targets (all as BigNat limb arrays, base 2^15, because u32 / i64        *)
(* extremes do not fit TLC's integers).  The expected urgency is computed  *)
(* here, by the BigNat form of the rule that MC_Urgency checks against the *)
(* native one.                                                             *)
(***************************************************************************)
EXTENDS Integers, Sequences, FiniteSets, TLC, Json, IOUtils, BigNat

Recs == ndJsonDeserialize(IOEnv.TRACE)
N    == Len(Recs)
B    == 32768

VARIABLES l, nviol
vars == <<l, nviol>>

Name(n) == IF n = 2 THEN "high" ELSE IF n = 1 THEN "low" ELSE "none"
Max2(a, b) == IF a >= b THEN a ELSE b

Expected(e) ==
  IF ~e.has THEN "high"
  ELSE Name(Max2(BUrg3(B, e.td, e.age), BUrg3(B, e.tv, [neg |-> FALSE, mag |-> e.since])))

(* the computation succeeds and yields the urgency of the rule *)
C12_Grid(e) == e.kind = "ok" /\ e.urg = Expected(e)

Init == l = 1 /\ nviol = 0
Next ==
  /\ l <= N
  /\ l' = l + 1
  /\ LET e == Recs[l] IN
       /\ (~C12_Grid(e) => PrintT(<<"VIOL", l, e.run, e.i, "C12">>))
       /\ nviol' = nviol + (IF C12_Grid(e) THEN 0 ELSE 1)
Spec == Init /\ [][Next]_vars

Judged == /\ PrintT(<<"JUDGED", TLCGet("stats").diameter - 1, N, TLCGet("stats").distinct>>)
          /\ TLCGet("stats").diameter - 1 = N
=============================================================================
