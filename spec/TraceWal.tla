------------------------------- MODULE TraceWal -------------------------------
(***************************************************************************)
(* Binding of WalDurability to the code: the file-system calls the SQLite  *)
(* backend really made while a request history ran (recorded by the        *)
(* LD_PRELOAD shim, abstracted by lib/crashplan.py:wal_events into one     *)
(* event per call) are replayed as the actions of WalDurability.  A call   *)
(* made while its action is not enabled - an acknowledgement before the    *)
(* WAL fsync, a database-page write before the WAL is synced, a WAL        *)
(* deletion before the database fsync - stops the replay; the position is  *)
(* printed and the trace is rejected (C04 at the level of the I/O          *)
(* protocol, without needing a crash to land in the unsafe window).        *)
(***************************************************************************)
EXTENDS WalDurability, Json, IOUtils

Recs == ndJsonDeserialize(IOEnv.TRACE)
N    == Len(Recs)

VARIABLE l
tvars == <<vars, l>>

TInit == Init /\ l = 1

SetOfSeq(s) == {s[i] : i \in DOMAIN s}
Unacked == {committed[i] : i \in DOMAIN committed} \ acked

Step(e) ==
  CASE e.a = "Begin"     -> Begin(SetOfSeq(e.pages))
    [] e.a = "WalWrite"  -> WalWrite(e.page)
    [] e.a = "WalSync"   -> IF walD # walV THEN WalSync ELSE UNCHANGED vars
    [] e.a = "DbSync"    -> IF dbD # dbV THEN DbSync ELSE UNCHANGED vars
    [] e.a = "CkptBegin" -> CkptBegin
    [] e.a = "CkptWrite" -> CkptWrite(e.page)
    [] e.a = "WalReset"  -> IF walV = <<>> /\ ~ckptOn THEN UNCHANGED vars ELSE WalReset
    [] e.a = "Ack"       -> IF Unacked = {} THEN UNCHANGED vars
                            ELSE Ack(CHOOSE t \in Unacked : \A u \in Unacked : t <= u)
    [] OTHER             -> UNCHANGED vars

(* an Ack event acknowledges every committed, unacknowledged transaction: one model step each *)
TNext ==
  /\ l <= N
  /\ LET e == Recs[l] IN
       /\ Step(e)
       /\ l' = IF e.a = "Ack" /\ Cardinality(Unacked) > 1 THEN l ELSE l + 1

TSpec == TInit /\ [][TNext]_tvars

(* accepted iff every line was consumed: the position reached is kept in a TLC register (the
   replay is one deterministic behaviour; run with -workers 1) *)
Track == TLCSet(42, l)
Accepted ==
  /\ PrintT(<<"WALRESULT", TLCGet(42), N, IF TLCGet(42) <= N THEN Recs[TLCGet(42)] ELSE [a |-> "end"]>>)
  /\ TLCGet(42) = N + 1
=============================================================================
