---------------------------- MODULE UploadFacts ----------------------------
(***************************************************************************)
(* SyncUpload's properties for ANY number of requests, pieces and workers  *)
(* (TLC checks them for 3 requests, 3 pieces, 2 workers): an inductive     *)
(* invariant, proved with TLAPS, for the handler design the code has       *)
(* (EarlyTxn = SharedBuffer = FALSE).                                      *)
(***************************************************************************)
EXTENDS SyncUpload, TLAPS

ASSUME Design == EarlyTxn = FALSE /\ SharedBuffer = FALSE
ASSUME Consts == MaxPieces \in Nat /\ Workers \in Nat

(* what a request's own buffer holds while its body is arriving: its first `sent` pieces, in order *)
Prefix(r, n) == [k \in 1..n |-> <<r, k>>]
BodyOf(t, r) == [k \in 1..t[r] |-> <<r, k>>]          \* Body(r) = BodyOf(total, r)

Inv ==
  /\ lock = 0
  /\ total \in [Reqs -> Nat] /\ sent \in [Reqs -> Nat]
  /\ phase \in [Reqs -> {"idle", "reading", "done"}]
  /\ rbuf \in [Reqs -> Seq(Reqs \X Nat)]
  /\ \A r \in Reqs : sent[r] <= total[r]
  /\ \A r \in Reqs : phase[r] = "reading" => (sent[r] < total[r] /\ rbuf[r] = Prefix(r, sent[r]))
  /\ \A r \in Reqs : phase[r] = "idle" => (sent[r] = 0 /\ rbuf[r] = << >>)
  /\ \A i \in DOMAIN applied : applied[i].req \in Reqs /\ phase[applied[i].req] = "done" /\ applied[i].body = Body(applied[i].req)
  /\ applied \in Seq([req : Reqs, body : Seq(Reqs \X Nat)]) /\ completed \in Seq(Reqs)
  /\ Len(applied) = Len(completed)
  /\ \A i \in DOMAIN applied : applied[i].req = completed[i]

LEMMA NoHoldingFromInv == Inv => NoHolding
  BY DEF Inv, NoHolding

LEMMA IntegrityFromInv == Inv => Integrity
  BY DEF Inv, Integrity

LEMMA SequentialFromInv == Inv => Sequential
  BY DEF Inv, Sequential

LEMMA InitInv == Init => Inv
  BY Design DEF Init, Inv, Prefix, Body

LEMMA BeginInv == ASSUME Inv, NEW r \in Reqs, NEW w \in 1..Workers, NEW n \in 1..MaxPieces, Begin(r, w, n) PROVE Inv'
  <1> USE Design, Consts
  <1>0. /\ phase[r] = "idle" /\ total' = [total EXCEPT ![r] = n] /\ phase' = [phase EXCEPT ![r] = "reading"]
        /\ lock' = lock /\ sent' = sent /\ rbuf' = rbuf /\ applied' = applied /\ completed' = completed /\ n \in Nat /\ n >= 1
    BY DEF Begin
  <1>1. \A i \in DOMAIN applied : applied[i].req # r
    BY <1>0 DEF Inv
  <1>2. \A i \in DOMAIN applied : BodyOf(total', applied[i].req) = BodyOf(total, applied[i].req)
    BY <1>0, <1>1 DEF Inv, Body, BodyOf
  <1>3. \A i \in DOMAIN applied' : applied'[i].req \in Reqs /\ phase'[applied'[i].req] = "done" /\ applied'[i].body = BodyOf(total', applied'[i].req)
    BY <1>0, <1>1, <1>2 DEF Inv, Body, BodyOf
  <1>4. \A q \in Reqs : phase'[q] = "reading" => (sent'[q] < total'[q] /\ rbuf'[q] = Prefix(q, sent'[q]))
    BY <1>0 DEF Inv, Prefix
  <1>5. \A q \in Reqs : sent'[q] <= total'[q]
    BY <1>0 DEF Inv
  <1> QED BY <1>0, <1>3, <1>4, <1>5 DEF Inv, Body, BodyOf

LEMMA PrefixSeq == ASSUME NEW r, NEW n \in Nat PROVE Prefix(r, n) \in Seq({r} \X Nat) /\ Len(Prefix(r, n)) = n
  <1>1. Prefix(r, n) \in [1..n -> {r} \X Nat]
    BY DEF Prefix
  <1> QED BY <1>1 DEF Prefix

LEMMA AppendPrefix == ASSUME NEW r, NEW n \in Nat PROVE Append(Prefix(r, n), <<r, n + 1>>) = Prefix(r, n + 1)
  <1>1. Len(Prefix(r, n)) = n /\ Prefix(r, n) \in Seq({r} \X Nat)
    BY PrefixSeq
  <1>2. Append(Prefix(r, n), <<r, n + 1>>) = [i \in 1..(n + 1) |-> IF i <= n THEN Prefix(r, n)[i] ELSE <<r, n + 1>>]
    BY <1>1 DEF Append
  <1>3. \A i \in 1..(n + 1) : (IF i <= n THEN Prefix(r, n)[i] ELSE <<r, n + 1>>) = <<r, i>>
    BY DEF Prefix
  <1> QED BY <1>2, <1>3 DEF Prefix

LEMMA PieceInv == ASSUME Inv, NEW r \in Reqs, Piece(r) PROVE Inv'
  <1> USE Design, Consts
  <1>0. /\ phase[r] = "reading" /\ sent[r] < total[r] - 1 /\ sent' = [sent EXCEPT ![r] = sent[r] + 1]
        /\ rbuf' = [rbuf EXCEPT ![r] = Append(rbuf[r], <<r, sent[r] + 1>>)]
        /\ phase' = phase /\ total' = total /\ lock' = lock /\ applied' = applied /\ completed' = completed
    BY DEF Piece
  <1>1. rbuf[r] = Prefix(r, sent[r]) /\ sent[r] \in Nat /\ total[r] \in Nat
    BY <1>0 DEF Inv
  <1>2. Append(rbuf[r], <<r, sent[r] + 1>>) = Prefix(r, sent[r] + 1)
    BY <1>1, AppendPrefix
  <1>3. \A q \in Reqs : phase'[q] = "reading" => (sent'[q] < total'[q] /\ rbuf'[q] = Prefix(q, sent'[q]))
    BY <1>0, <1>1, <1>2 DEF Inv
  <1>4. \A q \in Reqs : sent'[q] <= total'[q]
    BY <1>0, <1>1 DEF Inv
  <1>5. \A q \in Reqs : phase'[q] = "idle" => (sent'[q] = 0 /\ rbuf'[q] = << >>)
    BY <1>0 DEF Inv
  <1>6. sent' \in [Reqs -> Nat]
    BY <1>0, <1>1 DEF Inv
  <1>7. \A i \in DOMAIN applied' : applied'[i].req \in Reqs /\ phase'[applied'[i].req] = "done" /\ applied'[i].body = BodyOf(total', applied'[i].req)
    BY <1>0 DEF Inv, Body, BodyOf
  <1>8. rbuf' \in [Reqs -> Seq(Reqs \X Nat)]
    <2>1. Prefix(r, sent[r] + 1) \in Seq({r} \X Nat)
      BY <1>1, PrefixSeq
    <2>2. Prefix(r, sent[r] + 1) \in Seq(Reqs \X Nat)
      BY <2>1
    <2> QED BY <1>0, <1>2, <2>2 DEF Inv
  <1> QED BY <1>0, <1>3, <1>4, <1>5, <1>6, <1>7, <1>8 DEF Inv, Body, BodyOf

LEMMA ProbeInv == ASSUME Inv, Probe PROVE Inv'
  BY DEF Inv, Probe, Prefix, Body

LEMMA ApplyInv == ASSUME Inv, NEW r \in Reqs, Apply(r) PROVE Inv'
  <1> USE Design, Consts
  <1>0. /\ phase[r] = "reading" /\ sent[r] = total[r] - 1
        /\ applied' = Append(applied, [req |-> r, body |-> Append(rbuf[r], <<r, total[r]>>)])
        /\ completed' = Append(completed, r)
        /\ sent' = [sent EXCEPT ![r] = total[r]] /\ phase' = [phase EXCEPT ![r] = "done"]
        /\ lock' = 0 /\ total' = total /\ rbuf' = rbuf
    BY DEF Apply
  <1>1. rbuf[r] = Prefix(r, sent[r]) /\ sent[r] \in Nat /\ total[r] \in Nat /\ total[r] = sent[r] + 1
    BY <1>0 DEF Inv
  <1>2. Append(rbuf[r], <<r, total[r]>>) = Prefix(r, total[r])
    BY <1>1, AppendPrefix
  <1>3. Prefix(r, total[r]) = BodyOf(total', r) /\ Prefix(r, total[r]) \in Seq(Reqs \X Nat)
    BY <1>0, <1>1, PrefixSeq DEF Body, BodyOf, Prefix
  <1>4. [req |-> r, body |-> Prefix(r, total[r])] \in [req : Reqs, body : Seq(Reqs \X Nat)]
    BY <1>3
  <1>5. applied' \in Seq([req : Reqs, body : Seq(Reqs \X Nat)]) /\ completed' \in Seq(Reqs)
        /\ Len(applied') = Len(applied) + 1 /\ Len(completed') = Len(completed) + 1
    BY <1>0, <1>2, <1>4 DEF Inv
  <1>6. \A i \in DOMAIN applied' : applied'[i].req \in Reqs /\ phase'[applied'[i].req] = "done" /\ applied'[i].body = BodyOf(total', applied'[i].req)
    <2> TAKE i \in DOMAIN applied'
    <2>1. CASE i \in DOMAIN applied
      <3>1. applied'[i] = applied[i]
        BY <1>0, <2>1 DEF Inv
      <3>2. BodyOf(total', applied[i].req) = BodyOf(total, applied[i].req)
        BY <1>0 DEF Body, BodyOf
      <3> QED BY <1>0, <2>1, <3>1, <3>2 DEF Inv, Body, BodyOf
    <2>2. CASE i = Len(applied) + 1
      <3>1. applied'[i] = [req |-> r, body |-> Prefix(r, total[r])]
        BY <1>0, <1>2, <2>2 DEF Inv
      <3> QED BY <1>0, <1>3, <3>1 DEF Inv
    <2> QED BY <1>5, <2>1, <2>2 DEF Inv
  <1>7. \A i \in DOMAIN applied' : applied'[i].req = completed'[i]
    BY <1>0, <1>5 DEF Inv
  <1>8. \A q \in Reqs : phase'[q] = "reading" => (sent'[q] < total'[q] /\ rbuf'[q] = Prefix(q, sent'[q]))
    BY <1>0 DEF Inv
  <1>9. \A q \in Reqs : sent'[q] <= total'[q]
    BY <1>0, <1>1 DEF Inv
  <1>10. \A q \in Reqs : phase'[q] = "idle" => (sent'[q] = 0 /\ rbuf'[q] = << >>)
    BY <1>0 DEF Inv
  <1>11. sent' \in [Reqs -> Nat] /\ phase' \in [Reqs -> {"idle", "reading", "done"}]
    BY <1>0, <1>1 DEF Inv
  <1> QED BY <1>0, <1>5, <1>6, <1>7, <1>8, <1>9, <1>10, <1>11 DEF Inv, Body, BodyOf

THEOREM Safety == Spec => [](NoHolding /\ Integrity /\ Sequential)
  <1>1. Inv /\ [Next]_vars => Inv'
    <2> SUFFICES ASSUME Inv, [Next]_vars PROVE Inv'
      OBVIOUS
    <2>1. CASE UNCHANGED vars
      BY <2>1 DEF Inv, vars, Body
    <2>2. CASE Next
      BY <2>2, BeginInv, PieceInv, ApplyInv, ProbeInv DEF Next
    <2> QED BY <2>1, <2>2
  <1>2. Spec => []Inv
    BY InitInv, <1>1, PTL DEF Spec
  <1> QED BY <1>2, NoHoldingFromInv, IntegrityFromInv, SequentialFromInv, PTL
=============================================================================
