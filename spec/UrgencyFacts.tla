---------------------------- MODULE UrgencyFacts ----------------------------
(***************************************************************************)
(* The arithmetic facts of C12 for ALL natural targets and measures (TLC   *)
(* checks them for small values in MC_Urgency, the grid checks the code at *)
(* the extremes of u32 / i64): proved with TLAPS.                          *)
(*   Low(t)  = t                 High(t) = t + t \div 2                    *)
(*   Urg(t, m) = 2 if m >= High(t), 1 if m >= Low(t), else 0               *)
(***************************************************************************)
EXTENDS Integers, TLAPS

Low(t)  == t
High(t) == t + (t \div 2)
Urg(t, m) == IF m >= High(t) THEN 2 ELSE IF m >= Low(t) THEN 1 ELSE 0

(* the high threshold is never below the low one *)
THEOREM HighGeLow == \A t \in Nat : High(t) >= Low(t)
  BY DEF High, Low

(* the urgency never decreases as the measure grows *)
THEOREM Monotone == \A t \in Nat : \A m, n \in Int : m <= n => Urg(t, m) <= Urg(t, n)
  BY DEF Urg, High, Low

(* the implementation's (fixed) expression t + t/2 with saturation at the type's maximum M agrees with the
   specification's unbounded threshold on every measure that fits the type *)
Sat(x, M) == IF x > M THEN M ELSE x
THEOREM SaturationIsExact ==
  \A M \in Nat : \A t \in 0..M : \A m \in 0..(M - 1) :
     (m >= Sat(High(t), M)) <=> (m >= High(t))
  BY DEF Sat, High

(* a negative measure (snapshot time in the future) is below every non-negative threshold *)
THEOREM NegativeIsNone == \A t \in Nat : \A m \in Int : (m < 0 /\ t > 0) => Urg(t, m) = 0
  BY DEF Urg, High, Low
=============================================================================
