--------------------------- MODULE WalDurability ---------------------------
(***************************************************************************)
(* Why C04 can hold: the write-ahead-log protocol the SQLite backend runs  *)
(* under (journal_mode=WAL, synchronous=FULL, one connection per           *)
(* transaction, checkpoint-and-delete when the last connection closes), at *)
(* the level of the file-system calls the LD_PRELOAD shim records:         *)
(*                                                                         *)
(*   WalWrite   a frame (page image, commit marker) is appended to the WAL *)
(*   WalSync    fsync of the WAL                                           *)
(*   Ack        the request is acknowledged to the client                  *)
(*   CkptWrite  a committed page image is copied into the database file    *)
(*   DbSync     fsync of the database file                                 *)
(*   WalReset   the WAL is deleted / restarted after a checkpoint          *)
(*   PowerLoss  every file falls back to its last synced content plus an   *)
(*              arbitrary subset of the later writes; Recover replays the  *)
(*              valid prefix of the WAL (frames up to the last commit      *)
(*              marker before the first missing frame)                     *)
(*                                                                         *)
(* Pages hold the number of the transaction that wrote them.  Checked:     *)
(*   Durable    after a power loss every acknowledged transaction is       *)
(*              visible, and what is visible is a whole prefix of the      *)
(*              committed transactions (no half-applied transaction)       *)
(* The ordering rules that make this true are the ENABLING CONDITIONS of   *)
(* the actions (Ack only after the commit frame is synced; CkptWrite only  *)
(* of synced frames; WalReset only after DbSync).  The binding to the code *)
(* (spec/TraceWal.tla) replays the recorded file-system calls of real      *)
(* transactions as these actions and fails when a call is made while its   *)
(* action is not enabled - e.g. an acknowledgement before the WAL fsync.   *)
(* The constants Relax* switch single rules off (negative controls).       *)
(***************************************************************************)
EXTENDS Integers, Sequences, FiniteSets, TLC

CONSTANTS Pages,          \* set of page numbers
          MaxTxn,         \* transactions 1..MaxTxn
          RelaxAck,       \* TRUE: Ack does not wait for the WAL fsync        (negative control)
          RelaxCkpt,      \* TRUE: checkpoint may copy unsynced frames        (negative control)
          RelaxReset      \* TRUE: the WAL may be deleted before the db fsync (negative control)

VARIABLES
  dbD, dbV,        \* database file: durable / volatile page -> txn number (0 = initial)
  walD, walV,      \* WAL: durable / volatile sequence of frames [page, txn, commit]
  cur,             \* transaction being written (0 = none)
  todo,            \* pages the current transaction still has to write
  committed,       \* transactions whose commit frame has been written (in order)
  acked,           \* acknowledged transactions
  ckpt,            \* pages the running checkpoint still has to copy ({} = no checkpoint running)
  ckptOn,          \* a checkpoint is running
  lost,            \* a power loss happened (terminal)
  writes           \* history: transaction -> set of pages it wrote

vars == <<dbD, dbV, walD, walV, cur, todo, committed, acked, ckpt, ckptOn, lost, writes>>

Frame(p, t, c) == [page |-> p, txn |-> t, commit |-> c]

Init ==
  /\ dbD = [p \in Pages |-> 0] /\ dbV = [p \in Pages |-> 0]
  /\ walD = <<>> /\ walV = <<>>
  /\ cur = 0 /\ todo = {} /\ committed = <<>> /\ acked = {}
  /\ ckpt = {} /\ ckptOn = FALSE /\ lost = FALSE
  /\ writes = [t \in 1..MaxTxn |-> {}]

NextTxn == Len(committed) + 1

(* frames of the WAL up to and including its last commit marker *)
RECURSIVE LastCommit(_, _)
LastCommit(w, i) == IF i = 0 THEN 0 ELSE IF w[i].commit THEN i ELSE LastCommit(w, i - 1)
ValidPrefix(w) == SubSeq(w, 1, LastCommit(w, Len(w)))

(* page content seen through a WAL: the last valid frame of the page, else the database file *)
View(db, w) ==
  LET vp == ValidPrefix(w) IN
  [p \in Pages |-> LET idx == {i \in DOMAIN vp : vp[i].page = p} IN
                   IF idx = {} THEN db[p] ELSE vp[CHOOSE i \in idx : \A j \in idx : j <= i].txn]

Begin(ps) ==
  /\ ~lost /\ cur = 0 /\ ~ckptOn /\ NextTxn <= MaxTxn /\ ps # {}
  /\ cur' = NextTxn /\ todo' = ps
  /\ writes' = [writes EXCEPT ![NextTxn] = ps]
  /\ UNCHANGED <<dbD, dbV, walD, walV, committed, acked, ckpt, ckptOn, lost>>

(* append one frame; the last frame of a transaction carries the commit marker *)
WalWrite(p) ==
  /\ ~lost /\ cur # 0 /\ p \in todo
  /\ walV' = Append(walV, Frame(p, cur, todo = {p}))
  /\ todo' = todo \ {p}
  /\ committed' = IF todo = {p} THEN Append(committed, cur) ELSE committed
  /\ cur' = IF todo = {p} THEN 0 ELSE cur
  /\ UNCHANGED <<dbD, dbV, walD, acked, ckpt, ckptOn, lost, writes>>

WalSync ==
  /\ ~lost /\ walD # walV
  /\ walD' = walV
  /\ UNCHANGED <<dbD, dbV, walV, cur, todo, committed, acked, ckpt, ckptOn, lost, writes>>

CommitSynced(t) == \E i \in DOMAIN walD : walD[i].txn = t /\ walD[i].commit

(* the acknowledgement: only when the commit frame is on stable storage (synchronous=FULL),
   or the transaction has already been checkpointed into a synced database file *)
Ack(t) ==
  /\ ~lost /\ t \in {committed[i] : i \in DOMAIN committed} /\ t \notin acked
  /\ (RelaxAck \/ CommitSynced(t) \/ (walV = <<>> /\ dbD = dbV))
  /\ acked' = acked \cup {t}
  /\ UNCHANGED <<dbD, dbV, walD, walV, cur, todo, committed, ckpt, ckptOn, lost, writes>>

(* checkpoint: copy the newest committed image of every page in the WAL into the database file *)
CkptBegin ==
  /\ ~lost /\ cur = 0 /\ ~ckptOn /\ walV # <<>>
  /\ (RelaxCkpt \/ walD = walV)                    \* the WAL is synced before the database file is touched
  /\ ckptOn' = TRUE
  /\ ckpt' = {walV[i].page : i \in DOMAIN ValidPrefix(walV)}
  /\ UNCHANGED <<dbD, dbV, walD, walV, cur, todo, committed, acked, lost, writes>>

CkptWrite(p) ==
  /\ ~lost /\ ckptOn /\ p \in ckpt
  /\ dbV' = [dbV EXCEPT ![p] = View(dbV, walV)[p]]
  /\ ckpt' = ckpt \ {p}
  /\ UNCHANGED <<dbD, walD, walV, cur, todo, committed, acked, ckptOn, lost, writes>>

DbSync ==
  /\ ~lost /\ dbD # dbV
  /\ dbD' = dbV
  /\ UNCHANGED <<dbV, walD, walV, cur, todo, committed, acked, ckpt, ckptOn, lost, writes>>

(* the WAL is deleted (last connection closed) or restarted: only after the checkpointed pages are synced *)
WalReset ==
  /\ ~lost /\ ckptOn /\ ckpt = {}
  /\ (RelaxReset \/ dbD = dbV)
  /\ walV' = <<>> /\ walD' = <<>>                  \* directory operations are durable in issue order
  /\ ckptOn' = FALSE
  /\ UNCHANGED <<dbD, dbV, cur, todo, committed, acked, ckpt, lost, writes>>

(* the durable WAL keeps an arbitrary subset of the unsynced frames; a missing frame invalidates
   everything after it (checksum chain), so what counts is the surviving prefix *)
PowerLoss ==
  /\ ~lost
  /\ \E k \in Len(walD)..Len(walV) :
     \E keep \in SUBSET {p \in Pages : dbV[p] # dbD[p]} :
        /\ walD' = SubSeq(walV, 1, k) /\ walV' = SubSeq(walV, 1, k)
        /\ dbD' = [p \in Pages |-> IF p \in keep THEN dbV[p] ELSE dbD[p]]
        /\ dbV' = [p \in Pages |-> IF p \in keep THEN dbV[p] ELSE dbD[p]]
  /\ lost' = TRUE /\ cur' = 0 /\ todo' = {} /\ ckpt' = {} /\ ckptOn' = FALSE
  /\ UNCHANGED <<committed, acked, writes>>

Next ==
  \/ \E ps \in SUBSET Pages : Begin(ps)
  \/ \E p \in Pages : WalWrite(p) \/ CkptWrite(p)
  \/ WalSync \/ DbSync \/ CkptBegin \/ WalReset \/ PowerLoss
  \/ \E t \in 1..MaxTxn : Ack(t)

Spec == Init /\ [][Next]_vars

(***************************************************************************)
(* What recovery shows, and the property                                   *)
(***************************************************************************)
Recovered == View(dbD, walD)

(* the state after the first n committed transactions *)
StateAfter(n) ==
  [p \in Pages |-> LET ws == {t \in 1..n : p \in writes[t]} IN
                   IF ws = {} THEN 0 ELSE CHOOSE t \in ws : \A u \in ws : u <= t]

(* C04 at the level of the files: nothing acknowledged is lost, nothing is half applied *)
Durable ==
  lost => \E n \in 0..Len(committed) : Recovered = StateAfter(n) /\ \A t \in acked : t <= n

TypeOK == /\ cur \in 0..MaxTxn /\ acked \subseteq 1..MaxTxn
=============================================================================
