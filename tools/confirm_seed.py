#!/usr/bin/env python3
"""Confirm seeded changes produced by sub-agents, in a scratch worktree of /repo (outside /repo and
/verif), and keep the confirmed ones under /verif/seeded/<id>/.

usage: tools/confirm_seed.py <agent-out-dir>/m<k> <seed-id> [...pairs]
For each: clean tree + demo => passes; patch => builds, the whole existing suite passes, demo fails.
"""
import json, os, shutil, subprocess, sys, time

WT = "/tmp/confirm-wt"
VERIF = os.path.dirname(os.path.dirname(os.path.abspath(__file__)))


def sh(cmd, cwd=WT, timeout=3600):
    p = subprocess.run(cmd, shell=True, cwd=cwd, stdout=subprocess.PIPE, stderr=subprocess.STDOUT, text=True, timeout=timeout,
                       env=dict(os.environ, CARGO_NET_OFFLINE="true"))
    return p.returncode, p.stdout


def clean():
    sh("git checkout -- . && git clean -fdq -e target")


def main():
    pairs = list(zip(sys.argv[1::2], sys.argv[2::2]))
    if not os.path.isdir(WT):
        rc, out = sh(f"git -C /repo worktree add --detach {WT} HEAD", cwd="/")
        if rc:
            print(out); return 2
    results = []
    for src, sid in pairs:
        meta = json.load(open(os.path.join(src, "meta.json")))
        clean()
        dest = meta["demo_dest"]
        demo_files = sorted(os.listdir(os.path.join(src, "demo")), key=lambda f: (os.path.basename(dest) != f, f))
        os.makedirs(os.path.join(WT, os.path.dirname(dest)) if os.path.dirname(dest) else WT, exist_ok=True)
        shutil.copy(os.path.join(src, "demo", demo_files[0]), os.path.join(WT, dest))
        if "<repo-root>" in meta["demo_cmd"]:
            script = meta["demo_cmd"].split("#")[0].split()[1]          # e.g. demo/run_demo_m1.sh
            meta["demo_cmd"] = f"sh {os.path.join(src, script)} {WT}"
        if "cp demo/" in meta["demo_cmd"] and "cargo " in meta["demo_cmd"]:
            # the demonstration is copied to demo_dest by this tool
            meta["demo_cmd"] = meta["demo_cmd"][meta["demo_cmd"].index("cargo "):]
        ran = []
        rc0, out0 = sh(meta["demo_cmd"]); ran.append(("clean tree: " + meta["demo_cmd"], rc0))
        rc1, out1 = sh(f"git apply {os.path.join(src, 'patch.diff')}"); ran.append(("git apply patch.diff", rc1))
        rc2, out2 = sh("cargo build --workspace --offline"); ran.append(("patched: cargo build --workspace --offline", rc2))
        os.remove(os.path.join(WT, dest))
        rc3, out3 = sh("cargo test --workspace --offline --no-fail-fast 2>&1"); ran.append(("patched: cargo test --workspace --offline (existing suite)", rc3))
        npass = sum(int(l.split("ok.")[1].split("passed")[0]) for l in out3.splitlines() if l.startswith("test result: ok."))
        failed = [l for l in out3.splitlines() if l.startswith("test result: FAILED")]
        shutil.copy(os.path.join(src, "demo", demo_files[0]), os.path.join(WT, dest))
        rc4, out4 = sh(meta["demo_cmd"]); ran.append(("patched: " + meta["demo_cmd"], rc4))
        ok = rc0 == 0 and rc1 == 0 and rc2 == 0 and not failed and npass >= 65 and rc4 != 0
        res = dict(seed=sid, ok=ok, demo_clean_rc=rc0, apply_rc=rc1, build_rc=rc2, suite_passed=npass, suite_failed=len(failed), demo_patched_rc=rc4)
        print(json.dumps(res), flush=True)
        results.append(res)
        if ok:
            d = os.path.join(VERIF, "seeded", sid)
            shutil.rmtree(d, ignore_errors=True)
            os.makedirs(d)
            shutil.copy(os.path.join(src, "patch.diff"), d)
            shutil.copytree(os.path.join(src, "demo"), os.path.join(d, "demo"))
            if os.path.exists(os.path.join(src, "README.md")):
                shutil.copy(os.path.join(src, "README.md"), d)
            meta2 = dict(meta)
            meta2["breaks_property"] = meta.get("property")
            meta2["confirmed"] = dict(when=time.strftime("%Y-%m-%d %H:%M:%S"), ran=[dict(cmd=c, rc=r) for c, r in ran],
                                      existing_suite_passed=npass, note="confirmed in a scratch worktree of /repo HEAD: demo passes on the clean tree, "
                                      "patched tree builds, whole existing suite passes, demo fails")
            json.dump(meta2, open(os.path.join(d, "meta.json"), "w"), indent=1)
        clean()
    return 0


if __name__ == "__main__":
    sys.exit(main())
