#!/usr/bin/env python3
"""Generates the C19 fixture corpus /verif/fixtures/*: data directories written BY THE PINNED TREE
(commit given below, built from a temporary worktree outside /repo and /verif, removed afterwards),
each with the trace of the history that produced it.  Run once; the corpus is committed."""
import json, os, shutil, subprocess, sys

ROOT = os.path.dirname(os.path.dirname(os.path.abspath(__file__)))
sys.path.insert(0, os.path.join(ROOT, "lib"))
import crashplan as cp
from common import SHIM, build_shim

PINNED = "a6bc6ed"
WT = "/tmp/fixture-wt"
HB = "/tmp/fixture-harness"

EXTRA = {
    "h4": dict(nclients=3, driver="http", steps=
        [{"op": "AddVersion", "c": 1, "arg": {"sym": "nil"}, "size": 10}] +
        [{"op": "AddVersion", "c": 1, "arg": {"sym": "latest"}, "size": 50 + 37 * i} for i in range(11)] +
        [{"op": "AddSnapshot", "c": 1, "arg": {"sym": "anc", "k": 2}, "size": 3000},
         {"op": "AddVersion", "c": 2, "arg": {"sym": "rnd", "k": 5}, "size": 5},
         {"op": "AddVersion", "c": 2, "arg": {"sym": "latest"}, "size": 200000},
         {"op": "AddVersion", "c": 1, "arg": {"sym": "latest"}, "size": 77},
         {"op": "AddVersion", "c": 3, "arg": {"sym": "nil"}, "size": 1},
         {"op": "AddSnapshot", "c": 3, "arg": {"sym": "latest"}, "size": 1},
         {"op": "AddVersion", "c": 3, "arg": {"sym": "latest"}, "size": 2}]),
}


def sh(cmd, **kw):
    p = subprocess.run(cmd, shell=True, stdout=subprocess.PIPE, stderr=subprocess.STDOUT, text=True, **kw)
    if p.returncode:
        print(p.stdout[-3000:])
        raise SystemExit(f"failed: {cmd}")
    return p.stdout


def main():
    build_shim()
    cp.HISTORIES.update(EXTRA)
    shutil.rmtree(HB, ignore_errors=True)
    sh(f"git -C /repo worktree remove --force {WT} 2>/dev/null; git -C /repo worktree add --detach {WT} {PINNED}")
    try:
        shutil.copytree(os.path.join(ROOT, "harness"), HB, ignore=shutil.ignore_patterns("target"))
        t = open(os.path.join(HB, "Cargo.toml")).read().replace('"/repo/', f'"{WT}/')
        open(os.path.join(HB, "Cargo.toml"), "w").write(t)
        c = open(os.path.join(HB, ".cargo", "config.toml")).read().replace('target-dir = "../build/target"', 'target-dir = "target"')
        open(os.path.join(HB, ".cargo", "config.toml"), "w").write(c)
        shutil.copy(os.path.join(WT, "Cargo.lock"), os.path.join(HB, "Cargo.lock"))
        print(sh("cargo build --offline 2>&1 | tail -2", cwd=HB))
        binary = os.path.join(HB, "target", "debug", "tcss-harness")
        out = os.path.join(ROOT, "fixtures")
        shutil.rmtree(out, ignore_errors=True)
        os.makedirs(out)
        scratch = "/dev/shm/tcss-fixtures"
        shutil.rmtree(scratch, ignore_errors=True)
        os.makedirs(scratch)
        run = 7000
        for name in ("h1", "h2", "h3", "h4"):
            # cleanly closed
            d = os.path.join(scratch, name)
            tr = os.path.join(scratch, name + ".ndjson")
            p = cp.crashrun(binary, name, run, d, tr)
            assert p.returncode == 0, p.stderr
            evs = cp.read_events(tr)
            keep(out, f"{name}-clean", d, evs, dict(history=name, pinned=PINNED, how="history run to the end, storage closed"))
            run += 1
            # killed in the middle of a transaction (crash image, leftover -wal / -shm)
            intents = [e for e in evs if e["ev"] == "Intent"]
            for frac, tag in ((0.5, "mid"), (0.85, "late")):
                it = intents[int(len(intents) * frac)]
                ack = next(e for e in evs if e["ev"] == "Ack" and e["i"] == it["i"])
                k = it["io0"] + max(2, (ack["io1"] - it["io0"]) * 2 // 3)
                d2 = os.path.join(scratch, f"{name}-{tag}")
                tr2 = os.path.join(scratch, f"{name}-{tag}.ndjson")
                p = cp.crashrun(binary, name, run, d2, tr2, crash_at=k)
                assert p.returncode == 77, (p.returncode, p.stderr[-500:])
                keep(out, f"{name}-crash-{tag}", d2, cp.read_events(tr2),
                     dict(history=name, pinned=PINNED, how=f"process killed (SIGKILL-like _exit) just before file-system call {k}, inside request {it['i']} ({it['req']['op']})"))
                run += 1
        shutil.rmtree(scratch, ignore_errors=True)
        print(sh(f"du -sh {out}; ls {out}"))
    finally:
        sh(f"git -C /repo worktree remove --force {WT}")
        shutil.rmtree(HB, ignore_errors=True)


def keep(out, name, d, evs, meta):
    dst = os.path.join(out, name)
    os.makedirs(dst)
    files = sorted(os.listdir(d))
    for f in files:
        shutil.copy(os.path.join(d, f), os.path.join(dst, f))
    with open(os.path.join(dst, "trace.ndjson"), "w") as f:
        for e in evs:
            f.write(json.dumps(e) + "\n")
    meta["files"] = files
    meta["requests_acknowledged"] = sum(1 for e in evs if e["ev"] == "Ack")
    meta["in_flight"] = (evs[-1]["req"] if evs and evs[-1]["ev"] == "Intent" else None)
    json.dump(meta, open(os.path.join(dst, "meta.json"), "w"), indent=1)


if __name__ == "__main__":
    main()
