#!/usr/bin/env python3
"""Adds to the C19 corpus the data directories a server of the PINNED tree leaves behind when it dies during its very
first start-up (before, between and after the statements that create the schema): the pinned code completes such a
directory at its next start, so the current code must too.  The pinned harness is built from a temporary worktree
(outside /repo and /verif, removed afterwards); the process is killed before file-system call k for a few early k.
The trace of such a fixture is the Reset event alone (nothing was ever requested): the directory must open, be empty,
and take the continuation requests.  Run once; the result is committed."""
import json, os, shutil, subprocess, sys

ROOT = os.path.dirname(os.path.dirname(os.path.abspath(__file__)))
sys.path.insert(0, os.path.join(ROOT, "lib"))
import crashplan as cp
from common import build_shim

PINNED = "a6bc6ed"
WT = "/tmp/fixture-wt"
HB = "/tmp/fixture-harness"


def sh(cmd, **kw):
    p = subprocess.run(cmd, shell=True, stdout=subprocess.PIPE, stderr=subprocess.STDOUT, text=True, **kw)
    if p.returncode:
        print(p.stdout[-3000:])
        raise SystemExit(f"failed: {cmd}")
    return p.stdout


def main():
    out = sys.argv[1] if len(sys.argv) > 1 else os.path.join(ROOT, "fixtures")
    build_shim()
    shutil.rmtree(HB, ignore_errors=True)
    sh(f"git -C /repo worktree remove --force {WT} 2>/dev/null; git -C /repo worktree add --detach {WT} {PINNED}")
    try:
        shutil.copytree(os.path.join(ROOT, "harness"), HB, ignore=shutil.ignore_patterns("target"))
        t = open(os.path.join(HB, "Cargo.toml")).read().replace('"/repo/', f'"{WT}/')
        open(os.path.join(HB, "Cargo.toml"), "w").write(t)
        c = open(os.path.join(HB, ".cargo", "config.toml")).read().replace('target-dir = "../build/target"', 'target-dir = "target"')
        open(os.path.join(HB, ".cargo", "config.toml"), "w").write(c)
        shutil.copy(os.path.join(WT, "Cargo.lock"), os.path.join(HB, "Cargo.lock"))
        print(sh("cargo build --offline 2>&1 | tail -2", cwd=HB))
        binary = os.path.join(HB, "target", "debug", "tcss-harness")
        scratch = "/dev/shm/tcss-fixtures-startup"
        shutil.rmtree(scratch, ignore_errors=True)
        os.makedirs(scratch)
        # a complete run tells how many calls the start-up takes (the "io" field of the Reset event) and lends its Reset event
        d0 = os.path.join(scratch, "ref")
        t0 = os.path.join(scratch, "ref.ndjson")
        p = cp.crashrun(binary, "h1", 7100, d0, t0)
        assert p.returncode == 0, p.stderr
        reset = cp.read_events(t0)[0]
        nstart = int(reset["io"])
        print("start-up takes", nstart, "file-system calls")
        ks = sorted(set([1, 2, 3] + list(range(4, nstart + 1, max(1, nstart // 12))) + [nstart - 1, nstart]))
        kept = []
        seen = set()
        for k in ks:
            d = os.path.join(scratch, f"start-{k}")
            tr = os.path.join(scratch, f"start-{k}.ndjson")
            p = cp.crashrun(binary, "h1", 7100 + k, d, tr, crash_at=k)
            if p.returncode != 77:
                continue
            files = sorted(os.listdir(d)) if os.path.isdir(d) else []
            sig = tuple((f, os.path.getsize(os.path.join(d, f))) for f in files)
            if sig in seen or not files:
                continue                      # the same bytes on disk as an earlier crash point
            seen.add(sig)
            name = f"start-crash-{k:03d}"
            dst = os.path.join(out, name)
            shutil.rmtree(dst, ignore_errors=True)
            os.makedirs(dst)
            for f in files:
                shutil.copy(os.path.join(d, f), os.path.join(dst, f))
            ev = dict(reset, run=7100 + k)
            with open(os.path.join(dst, "trace.ndjson"), "w") as f:
                f.write(json.dumps(ev) + "\n")
            json.dump(dict(history="(none: killed during the first start-up)", pinned=PINNED,
                           how=f"process killed (SIGKILL-like _exit) just before file-system call {k} of {nstart} that the first start on an empty directory makes",
                           files=files, sizes={f: s for f, s in sig}, requests_acknowledged=0, in_flight=None),
                      open(os.path.join(dst, "meta.json"), "w"), indent=1)
            kept.append((name, sig))
        shutil.rmtree(scratch, ignore_errors=True)
        for n, sig in kept:
            print(n, sig)
    finally:
        sh(f"git -C /repo worktree remove --force {WT}")
        shutil.rmtree(HB, ignore_errors=True)


if __name__ == "__main__":
    main()
