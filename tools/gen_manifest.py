#!/usr/bin/env python3
"""Regenerates /verif/MANIFEST.json from the table below (single place to edit)."""
import json, os

ROOT = os.path.dirname(os.path.dirname(os.path.abspath(__file__)))
ALL = [f"C{i:02d}" for i in range(1, 21)]

SEQ_NOTE = ("Trusted: TLC and the JVM; the harness's state projection through the public Storage trait (cross-checked against raw "
            "SQLite rows); payloads compared as tokens by exact byte match; clock shifted in whole days by the LD_PRELOAD shim. "
            "Bounds: model MC_small (2 clients, <=3 versions, 1 random id, days 0..1) exhaustively, longer chains only in seeded histories.")

CHECKS = {
    "C01": dict(cat="model_checking", ref="6/C01", engine="SEQ", technique="TLC model checking of the L2 spec + replay of every model transition on the real code + TLC trace validation of recorded histories (chain predicates C01_State/C01_Walk)",
                text="TLC checks the chain invariant on every state of the bounded protocol model; every model transition is then executed on the real code (both backends, library and HTTP) and TLC evaluates the same predicate, plus a protocol-level GetChildVersion walk, on every recorded step and on seeded random histories with longer chains.",
                note=SEQ_NOTE),
    "C02": dict(cat="model_checking", ref="6/C02", engine="SEQ", technique="TLC model checking + all-transition replay + TLC trace validation (C02_Step: compare-and-append)",
                text="Every reachable client state x every id class for the parent is an edge of the model; each edge is executed on the real code and judged by TLC against the declarative acceptance rule, freshness of the issued id and the exact state delta.",
                note=SEQ_NOTE),
    "C07": dict(cat="model_checking", ref="6/C07", engine="SEQ", technique="TLC model checking + all-transition replay + TLC trace validation (C07_State/C07_Read over a ghost accept log)",
                text="A ghost accept-log is kept from observed responses; after every step of every run (other clients' steps, rejections, snapshots, reopen) TLC checks that every accepted record is still stored unchanged and that every GetChildVersion for an accepted parent returns the same record.",
                note=SEQ_NOTE),
    "C08": dict(cat="model_checking", ref="6/C08", engine="SEQ", technique="TLC model checking + all-transition replay + TLC trace validation (C08_Step, C08_Pair)",
                text="Every state x every id class for p: GetChildVersion(p) is executed on the real code immediately before AddVersion(p); TLC judges found/not-found/gone against the declarative acceptance rule on the observed state and the pairing with the AddVersion answer.",
                note=SEQ_NOTE),
    "C10": dict(cat="model_checking", ref="6/C10", engine="SEQ", technique="TLC model checking (window model, chains up to 7) + all-transition replay + TLC trace validation (C10_Step, C10_Mono)",
                text="TLC checks that the implementation-shaped bounded walk and the declarative five-most-recent rule agree in every state of a model with chains up to 7; every AddSnapshot edge (every chain length x snapshot position x requested version) is executed on the real code and judged, plus random histories with long chains.",
                note=SEQ_NOTE),
    "C11": dict(cat="model_checking", ref="6/C11", engine="SEQ", technique="TLC model checking + all-transition replay + TLC trace validation (C11_Step/C11_State/C11_Walk over a ghost snapshot record)",
                text="The ghost records the last snapshot the C10 rule accepts; every GetSnapshot answer (id and payload token from the same upload) and the stored snapshot are compared with it by TLC on every step; a GetChildVersion walk from the snapshot version must reach the latest version without gone. Schedules are covered by the C03 check.",
                note=SEQ_NOTE),
    "C18": dict(cat="model_checking", ref="6/C18", engine="SEQ", technique="TLC model checking + all-transition replay + TLC trace validation (C18_Step: full state of all clients equal before/after)",
                text="Every self-loop edge of the model (reads, conflicts, declined snapshots, reopen) is executed on both backends; the complete projected state of all clients (plus raw SQLite rows) before and after is compared by TLC.",
                note=SEQ_NOTE),
}

REASON_WIP = "check not built yet (work in progress, see DESIGN.md section 10 build order)"


def main():
    checks = []
    for pid in ALL:
        c = CHECKS.get(pid)
        if not c:
            continue
        checks.append({
            "property_id": pid,
            "quick_cmd": f"./check {pid} quick",
            "thorough_cmd": f"./check {pid} thorough",
            "evidence_file": f"/verif/evidence/{pid}.json",
            "replay_cmd_template": "./check replay {path}",
            "engine": c["engine"],
            "level_claimed": {"category": c["cat"], "text": c["text"], "design_ref": "DESIGN.md section " + c["ref"]},
            "level_note": c["note"],
            "technique": c["technique"],
        })
    m = {
        "version": 1,
        "setup_cmd": "./check setup",
        "hooks": {"guard": "tcss_verif",
                  "enable": "harness/.cargo/config.toml passes --cfg tcss_verif to every crate it builds from /repo (no hook exists in /repo at present; all instrumentation is external: Storage-trait wrapper, LD_PRELOAD shim, black-box binary)",
                  "baseline_off_cmd": "cd /repo && cargo test --workspace --no-fail-fast --offline",
                  "source_commits": [], "add_only": True},
        "engines": [
            {"name": "SEQ", "path": "lib/engines.py:engine_seq", "serves_properties": sorted(k for k, v in CHECKS.items() if v["engine"] == "SEQ"),
             "kind_free_text": "TLC on spec/SyncProtocol (MC_Seq) + edge emission + tour replay through harness + TLC trace validation (spec/TraceSeq)"},
        ],
        "checks": checks,
        "notes": "Model-based verification with an explicit TLA+ specification; see DESIGN.md. One orchestrator: ./check <id> quick|thorough.",
        "not_applicable": [{"property_id": p, "reason": REASON_WIP} for p in ALL if p not in CHECKS],
    }
    json.dump(m, open(os.path.join(ROOT, "MANIFEST.json"), "w"), indent=1)
    print("MANIFEST.json:", len(checks), "checks,", len(m["not_applicable"]), "not_applicable")


if __name__ == "__main__":
    main()
