#!/usr/bin/env python3
"""Regenerates /verif/MANIFEST.json from the table below (single place to edit)."""
import json, os

ROOT = os.path.dirname(os.path.dirname(os.path.abspath(__file__)))
ALL = [f"C{i:02d}" for i in range(1, 21)]

SEQ_NOTE = ("Trusted: TLC and the JVM; the harness's state projection through the public Storage trait (cross-checked against raw "
            "SQLite rows); payloads compared as tokens by exact byte match; clock shifted in whole days by the LD_PRELOAD shim. "
            "Bounds: model MC_small (2 clients, <=3 versions, 1 random id, days 0..1) exhaustively, longer chains only in seeded histories.")

CHECKS = {
    "C01": dict(cat="model_checking", ref="6/C01", engine="SEQ", technique="TLC model checking of the L2 spec + replay of every model transition on the real code + TLC trace validation of recorded histories (chain predicates C01_State/C01_Walk)",
                text="TLC checks the chain invariant on every state of the bounded protocol model; every model transition is then executed on the real code (both backends, library and HTTP) and TLC evaluates the same predicate, plus a protocol-level GetChildVersion walk, on every recorded step and on seeded random histories with longer chains.",
                note=SEQ_NOTE),
    "C02": dict(cat="model_checking", ref="6/C02", engine="SEQ", technique="TLC model checking + all-transition replay + TLC trace validation (C02_Step: compare-and-append)",
                text="Every reachable client state x every id class for the parent is an edge of the model; each edge is executed on the real code and judged by TLC against the declarative acceptance rule, freshness of the issued id and the exact state delta.",
                note=SEQ_NOTE),
    "C07": dict(cat="model_checking", ref="6/C07", engine="SEQ", technique="TLC model checking + all-transition replay + TLC trace validation (C07_State/C07_Read over a ghost accept log)",
                text="A ghost accept-log is kept from observed responses; after every step of every run (other clients' steps, rejections, snapshots, reopen) TLC checks that every accepted record is still stored unchanged and that every GetChildVersion for an accepted parent returns the same record.",
                note=SEQ_NOTE),
    "C08": dict(cat="model_checking", ref="6/C08", engine="SEQ", technique="TLC model checking + all-transition replay + TLC trace validation (C08_Step, C08_Pair)",
                text="Every state x every id class for p: GetChildVersion(p) is executed on the real code immediately before AddVersion(p); TLC judges found/not-found/gone against the declarative acceptance rule on the observed state and the pairing with the AddVersion answer.",
                note=SEQ_NOTE),
    "C10": dict(cat="model_checking", ref="6/C10", engine="SEQ", technique="TLC model checking (window model, chains up to 7) + all-transition replay + TLC trace validation (C10_Step, C10_Mono)",
                text="TLC checks that the implementation-shaped bounded walk and the declarative five-most-recent rule agree in every state of a model with chains up to 7; every AddSnapshot edge (every chain length x snapshot position x requested version) is executed on the real code and judged, plus random histories with long chains.",
                note=SEQ_NOTE),
    "C11": dict(cat="model_checking", ref="6/C11", engine="SEQ", technique="TLC model checking + all-transition replay + TLC trace validation (C11_Step/C11_State/C11_Walk over a ghost snapshot record)",
                text="The ghost records the last snapshot the C10 rule accepts; every GetSnapshot answer (id and payload token from the same upload) and the stored snapshot are compared with it by TLC on every step; a GetChildVersion walk from the snapshot version must reach the latest version without gone. Schedules are covered by the C03 check. GetSnapshot under storage faults (every storage call and I/O call of the request fails): an answer that is not an error must be the right one (C11f). Aborted and refused snapshot uploads never become the served snapshot.",
                note=SEQ_NOTE),
    "C18": dict(cat="model_checking", ref="6/C18", engine="SEQ", technique="TLC model checking + all-transition replay + TLC trace validation (C18_Step: full state of all clients equal before/after)",
                text="Every self-loop edge of the model (reads, conflicts, declined snapshots, reopen) is executed on both backends; the complete projected state of all clients (plus raw SQLite rows) before and after is compared by TLC.",
                note=SEQ_NOTE),
}

HTTP_NOTE = ("Trusted: TLC/JVM; in-process actix service built from WebServer::config (requests never cross a socket in this check); "
             "one concrete spelling per grammar form; payload tokens by exact byte match. Syntactically invalid HTTP is answered below the application and is not claimed.")
CHECKS.update({
    "C03": dict(cat="model_checking", ref="6/C03", engine="CONC", technique="TLC model checking of SyncStorage (request programs at storage-call granularity, lock, both backend semantics) + replay of model schedules + gate-level exhaustive exploration on the real code + TLC trace validation of recorded rounds (linearizability, ConcProps)",
                text="TLC explores all interleavings of 2-3 request programs over seed states and checks mutual exclusion and linearizability (the create-then-add of a new client as two units); a sample of the terminal schedules, a bounded-exhaustive depth-first exploration over 'which parked request passes its storage call next' for all request pairs, and seeded random triples run on the real handlers/library under a gating Storage wrapper (in-memory, one SQLite object, two SQLite objects on one directory); TLC judges every recorded round. Stress rounds in which every request's server owns its SqliteStorage object itself (no harness wrapper, no gates, four requests started together) are judged the same way; the recorded storage calls of the gated rounds are replayed as actions of the SyncStorage model (TraceStorage).",
                note="Trusted: TLC/JVM, the gating wrapper (public Storage trait) and its log order (sequence numbers under one mutex; acquired logged after txn() returns, release before the drop). Requests are threads of one process; a blocked txn() is recognised by a grace period, timing never decides a verdict. Bounds: pairs exhaustively up to a round cap, triples sampled."),
    "C09": dict(cat="model_checking", ref="6/C09", engine="LOCK+SEQ", technique="two-run non-interference on the real code judged by TLC (TraceLockstep) + C09_Step predicate on all SEQ traces (TLC model checking + trace validation)",
                text="Each seeded multi-client history (arguments deliberately quoting other clients' ids) is projected onto each client and re-run alone on a fresh server; TLC compares the client's responses and own state pair by pair (oracle: the code's own solo behaviour). In addition the C09 step predicate (other clients' state untouched, no foreign id/payload in a response) is checked by TLC on the model and on every step of the tours and histories. Histories with other clients' uploads IN FLIGHT (interleaved chunked uploads over real sockets, Overlap steps) are part of the two-run comparison, and their socket steps are replayed against spec/SyncUpload.tla (NoHolding: a request is served while another upload is in flight).",
                note=SEQ_NOTE),
    "C12": dict(cat="model_checking", ref="6/C12", engine="URG+SEQ", technique="TLC model checking of the threshold rule (MC_Urgency, incl. BigNat vs native) + grid of real add_version calls judged by TLC with BigNat arithmetic (TraceUrg) + counter/urgency predicates on all SEQ traces",
                text="MC_Urgency checks thresholds, monotonicity and the BigNat arithmetic exhaustively for small values; a grid of targets (0, 1, odd, u32/i64 extremes) x measures around both thresholds is executed as one real add_version each (state set through the public storage API) and judged by TLC with BigNat; the versions-since counter and the reported urgency are checked on every step of the SEQ runs on both backends.",
                note="Ages beyond chrono's range (~9.5e7 days) cannot be set up and are skipped (counted in evidence). Dev profile (overflow checks on)."),
    "C13": dict(cat="model_checking", ref="6/C13", engine="LOCK", technique="lock-step execution of every model tour and of seeded histories on in-memory / SQLite / SQLite-with-reopen, pairs judged by TLC (TraceLockstep)",
                text="Every tour covering the transitions of the bounded model, and seeded random histories, run on the in-memory backend, on SQLite and on SQLite with a real close/reopen at the model's Reopen edges; TLC compares canonical events index by index.",
                note=SEQ_NOTE),
    "C14": dict(cat="model_checking", ref="6/C14", engine="HTTP", technique="replay of every model transition through the HTTP handlers with a library twin on a twin storage in lock step; TLC trace validation with the Encode predicate of spec/SyncHttp.tla",
                text="Every transition of the bounded model is executed through the real HTTP handlers while the protocol library executes the same request on a twin storage; TLC checks that status, presence/absence and values of X-Version-Id / X-Parent-Version-Id / X-Snapshot-Request, content type and body carry exactly the twin's outcome and that both storages end in the same state. The same with 36 sets of request headers that have no protocol meaning, and with payloads around actix's extractor limits.",
                note=HTTP_NOTE),
    "C15": dict(cat="exploration", ref="6/C15", engine="HTTP", technique="TLC enumerates the request grammar of spec/SyncHttp.tla completely (<=2 deviations from the well-formed baseline); every request is sent to the real handlers; TLC trace validation (C15_Step)",
                text="The grammar (route x method x client-id form x path-id form x content-type form x body size x chunking) is enumerated by TLC with its classifier (malformed / either / well-formed); each request is concretised and sent to servers holding non-trivial state on both backends, incl. bodies of limit-1, limit, limit+1 bytes single and multi chunk; TLC checks 4xx-and-unchanged for malformed, never 5xx, accepted up to the limit. Upload cases also over a real socket (Content-Length / chunked framing, corrupt chunk headers); 36 sets of meaningless request headers must not change a request's class.",
                note=HTTP_NOTE),
    "C16": dict(cat="model_checking", ref="6/C16", engine="HTTP", technique="TLC model checking of spec/SyncAllow.tla (allow-list over the protocol model) + replay of every transition through the HTTP handlers with a library twin + TLC trace validation (C16_Step incl. zero storage transactions)",
                text="The allow-list model (lists = all subsets of the clients, reconfiguration on existing data) is explored by TLC; every transition runs through the real handlers: unlisted => 403, no storage transaction begun (counting Storage wrapper), state unchanged, on all four endpoints; listed => identical to the library twin without a list; malformed ids under a list come from the grammar.",
                note=HTTP_NOTE),
    "C20": dict(cat="exploration", ref="6/C20", engine="HTTP", technique="TLC trace validation (C20_Step) over all HTTP-level explorations: model tours, allow-list tours, request grammar",
                text="Every HTTP exchange produced by the tour, allow-list and grammar explorations (all routes, methods, outcomes, refusals, unknown routes) is checked by TLC for a Cache-Control header with a no-store directive; evidence counts distinct (route, method, status, outcome) combinations. Request headers without a protocol meaning (content negotiation, conditionals, ranges, cache directives, proxies, CORS; 36 header sets) are added to requests of every route, in process and over a socket; storage outages supply 500 responses.",
                note=HTTP_NOTE),
})

CHECKS.update({
    "C04": dict(cat="fault_enumeration", ref="6/C04", engine="CRASH", technique="TLC model checking of SyncStorage with the Crash action (Inv_C04) + enumeration of every file-system call as a crash point on the real code (process-kill images and power-loss images rebuilt from the I/O log) + TLC trace validation of the recovered state (Recovered event of spec/TraceSeq)",
                text="Every write/truncate/sync/delete/create the database issues while a history runs (payloads from 1 B to 64 KiB/1 MiB, a second connection held open in part of the run so that WAL and checkpoints vary) is a crash point; the process-crash image (real kill before the call) and power-loss images (last synced content plus subsets of later writes) are opened by the real code in a fresh process; TLC checks integrity_check = ok, every acknowledged request present, the in-flight request all-or-nothing, chain and snapshot consistent, and a continuation of further requests. Images whose write-ahead log is not empty are also restarted through the real executable first (it starts on a copy, serves a request, is killed), so that what main() does to the directory at start-up is part of recovery. The WAL protocol itself is modelled (WalDurability) and bound to the recorded file-system calls (TraceWal).",
                note="Assumes directory operations durable in issue order, pwrite atomic (thorough adds torn last writes), tmpfs/kernel honour write+fsync; SQLite itself is exercised, not verified; the -shm file is not part of a power-loss image. Trusted: the LD_PRELOAD shim's I/O log is complete for the database files."),
    "C05": dict(cat="fault_enumeration", ref="6/C05", engine="FAULT", technique="TLC model checking of SyncStorage with Fail actions (Inv_C05; liveness under fairness in thorough) + enumeration of every storage call (trait level, before/after) and every I/O call (LD_PRELOAD shim, EIO/ENOSPC) of every request of the histories on the real code + TLC trace validation (C05_Round)",
                text="For each request of two histories, through HTTP and library, a probe counts its storage calls and I/O calls; each one is then made to fail (before / after taking effect; EIO once / ENOSPC persistently; selected double faults). TLC judges: error or correct answer, success only with the change committed, state exactly before (or after, only when the failing step can have been the commit), three follow-up requests served correctly. Lock contention is a further fault class: the next k attempts to take SQLite's write lock are refused (fcntl on the -shm file), k around every multiple 1..6 of the number of attempts one transaction begin waits out. The follow-up requests go through the very server object that served the faulted request.",
                note="SQLite backend. Trait-level faults through a gating wrapper implementing the public Storage trait; I/O-level faults at libc calls on the database files."),
    "C06": dict(cat="exploration", ref="6/C06", engine="BYTES", technique="seeded payload generator (lengths incl. every length of the page-boundary region, byte classes, chunk splittings) driven through library, in-process HTTP and a real socket; TLC trace validation over payload tokens (C06_Step)",
                text="TLC decides the relational part (which upload's bytes and ids must come back) on every step; the byte level is supplied by the harness, which maps returned bytes to the token of the upload they equal exactly. Lengths 1..1 MiB+1 (100 MiB in thorough), seven byte classes, all split positions of short bodies and splits around 4096/65536, Content-Length and chunked transfer over a real socket, both backends, reopen. Uploads that break after the first piece must never be served. Overlapping uploads: 2-3 chunked uploads over their own connections to one in-process HttpServer (1 or 2 workers), pieces interleaved, other requests in between; the recorded socket steps are replayed as the actions of spec/SyncUpload.tla (TraceUpload; Integrity), whose invariants TLC checks (with two negative controls) and TLAPS proves for any number of requests/pieces/workers.",
                note="TLC never sees bytes; 'all payloads' is a generator, not an enumeration."),
    "C17": dict(cat="exploration", ref="6/C17", engine="BIN", technique="trace validation of the unmodified executable: configurations drawn over flags/environment, HTTP over every listen address, SIGKILL + restart; TLC judges with model constants set from the configuration (spec/TraceSeq)",
                text="The real binary (rebuilt from /repo into /verif/build) is started with drawn configurations (1-3 listen addresses incl. localhost and [::1], nested data dir, allow-list, snapshot targets, each by flag or env), driven over all addresses, killed and restarted twice; TLC checks every exchange against the protocol/urgency/allow-list predicates under the configured constants; data files must be in the configured directory only.",
                note="Loopback only; finite sample of configurations (8 quick / 48 thorough); clock of the child shifted through the shim."),
    "C19": dict(cat="exploration", ref="6/C19", engine="FIX", technique="committed fixture corpus written by the pinned tree (clean and killed-in-transaction data directories with their producing traces); opened by the current code; TLC trace validation (Recovered + continuation in spec/TraceSeq)",
                text="Twelve data directories produced by the pinned commit a6bc6ed (4 histories: several clients, snapshots, payloads to 1 MiB; closed cleanly or killed inside a transaction with leftover -wal/-shm) are copied and opened by the current code; the stored trace supplies the expected logical content; TLC checks every client, version, payload, latest pointer, snapshot, and that new versions/snapshots can be appended.",
                note="Finite corpus; generated once by tools/gen_fixtures.py from a temporary worktree."),
})

REASON_WIP = "check not built yet (work in progress, see DESIGN.md section 10 build order)"


def main():
    checks = []
    for pid in ALL:
        c = CHECKS.get(pid)
        if not c:
            continue
        checks.append({
            "property_id": pid,
            "quick_cmd": f"./check {pid} quick",
            "thorough_cmd": f"./check {pid} thorough",
            "evidence_file": f"/verif/evidence/{pid}.json",
            "replay_cmd_template": "./check replay {path}",
            "engine": c["engine"],
            "level_claimed": {"category": c["cat"], "text": c["text"], "design_ref": "DESIGN.md section " + c["ref"]},
            "level_note": c["note"],
            "technique": c["technique"],
        })
    m = {
        "version": 1,
        "setup_cmd": "./check setup",
        "hooks": {"guard": "tcss_verif",
                  "enable": "RUSTFLAGS='--cfg tcss_verif --check-cfg cfg(tcss_verif)' (harness/.cargo/config.toml sets it for every harness build; lib/engines.py:tests_facet sets it for `cargo test --workspace` of /repo with CARGO_TARGET_DIR=/verif/build/hook-target and TCSS_TRACE_DIR). The hook (core/src/verif.rs + guarded blocks in core/src/server.rs) records each protocol operation as a trace event and is inert unless TCSS_TRACE_DIR is set. Everything else is external instrumentation: Storage-trait wrapper, LD_PRELOAD shim, black-box binary.",
                  "baseline_off_cmd": "cd /repo && cargo test --workspace --no-fail-fast --offline",
                  "source_commits": ["fa51efb"], "add_only": True},
        "engines": [
            {"name": "SEQ", "path": "lib/engines.py:engine_seq", "serves_properties": sorted(k for k, v in CHECKS.items() if "SEQ" in v["engine"]),
             "kind_free_text": "TLC on spec/SyncProtocol (MC_Seq) + edge emission + tour replay through harness + TLC trace validation (spec/TraceSeq)"},
            {"name": "CONC", "path": "lib/engines.py:engine_conc", "serves_properties": ["C03"],
             "kind_free_text": "TLC on spec/SyncStorage (MC_Conc) + schedule replay / gate-level DFS under harness/src/conc.rs + TLC trace validation (spec/TraceConc)"},
            {"name": "HTTP", "path": "lib/engines.py:engine_http", "serves_properties": ["C14", "C15", "C16", "C20"],
             "kind_free_text": "TLC on spec/SyncHttp (MC_Http grammar), spec/SyncAllow (MC_Allow) + replay through real handlers with library twin + TLC trace validation"},
            {"name": "LOCK", "path": "lib/engines.py:engine_lock", "serves_properties": ["C09", "C13"],
             "kind_free_text": "lock-step executions (backend variants, two-run non-interference) judged by TLC (spec/TraceLockstep)"},
            {"name": "CRASH", "path": "lib/engines.py:engine_crash", "serves_properties": ["C04"], "kind_free_text": "crash-point enumeration with the LD_PRELOAD shim, recovery in fresh processes, TLC judge"},
            {"name": "FAULT", "path": "lib/engines.py:engine_fault", "serves_properties": ["C05"], "kind_free_text": "trait-level and I/O-level fault sweeps, TLC judge (spec/TraceConc C05_Round)"},
            {"name": "BYTES", "path": "lib/engines.py:engine_bytes", "serves_properties": ["C06"], "kind_free_text": "payload generator through lib / HTTP / socket, TLC judge"},
            {"name": "BIN", "path": "lib/engines.py:engine_bin", "serves_properties": ["C17"], "kind_free_text": "real executable as a black box, TLC judge"},
            {"name": "FIX", "path": "lib/engines.py:engine_fix", "serves_properties": ["C19"], "kind_free_text": "fixture corpus, TLC judge"},
            {"name": "URG", "path": "lib/engines.py:engine_urg", "serves_properties": ["C12"],
             "kind_free_text": "TLC on spec/MC_Urgency + grid of real add_version calls judged by TLC with BigNat (spec/TraceUrg)"},
        ],
        "checks": checks,
        "notes": "Model-based verification with an explicit TLA+ specification; see DESIGN.md. One orchestrator: ./check <id> quick|thorough.",
        "not_applicable": [{"property_id": p, "reason": REASON_WIP} for p in ALL if p not in CHECKS],
    }
    json.dump(m, open(os.path.join(ROOT, "MANIFEST.json"), "w"), indent=1)
    print("MANIFEST.json:", len(checks), "checks,", len(m["not_applicable"]), "not_applicable")


if __name__ == "__main__":
    main()
