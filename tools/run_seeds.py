#!/usr/bin/env python3
"""Run the registered checks against the seeded changes under /verif/seeded.
usage: tools/run_seeds.py [--tier quick] [--props C01,C02] [seed-id ...]
For each seed: git -C /repo apply patch.diff ; ./check <property> <tier> ; git -C /repo checkout -- .
Results are appended to seeded/<id>/detect.json."""
import json, os, subprocess, sys, time

ROOT = os.path.dirname(os.path.dirname(os.path.abspath(__file__)))


def main():
    args = sys.argv[1:]
    tier = "quick"
    props = None
    ids = []
    i = 0
    while i < len(args):
        if args[i] == "--tier":
            tier = args[i + 1]; i += 2
        elif args[i] == "--props":
            props = args[i + 1].split(","); i += 2
        else:
            ids.append(args[i]); i += 1
    if not ids:
        ids = sorted(os.listdir(os.path.join(ROOT, "seeded")))
    for sid in ids:
        d = os.path.join(ROOT, "seeded", sid)
        if not os.path.exists(os.path.join(d, "patch.diff")):
            continue
        meta = json.load(open(os.path.join(d, "meta.json")))
        plist = props or [meta.get("breaks_property") or meta.get("property")]
        if subprocess.run("git -C /repo status --porcelain", shell=True, capture_output=True, text=True).stdout.strip():
            print("ERROR: /repo not clean"); return 2
        r = subprocess.run(["git", "-C", "/repo", "apply", os.path.join(d, "patch.diff")], capture_output=True, text=True)
        if r.returncode:
            print(sid, "patch does not apply:", r.stderr[:300]); continue
        try:
            for p in plist:
                t = time.time()
                r = subprocess.run(["./check", p, tier], cwd=ROOT, capture_output=True, text=True,
                                   env=dict(os.environ, VERIF_EVIDENCE_DIR=os.path.join(ROOT, "build", "evidence-seeds")))
                viol = [l for l in r.stdout.splitlines() if l.startswith("VIOLATION")]
                tail = r.stdout.strip().splitlines()[-3:]
                res = dict(seed=sid, check=p, tier=tier, exit=r.returncode, detected=(r.returncode == 1 and bool(viol)),
                           wall=round(time.time() - t, 1), first=(r.stdout.splitlines()[[l.startswith("VIOLATION") for l in r.stdout.splitlines()].index(True) + 1][:400] if viol else tail))
                print(json.dumps(res), flush=True)
                f = os.path.join(d, "detect.json")
                hist = json.load(open(f)) if os.path.exists(f) else []
                hist = [h for h in hist if not (h["check"] == p and h["tier"] == tier)] + [res]
                json.dump(hist, open(f, "w"), indent=1)
        finally:
            subprocess.run("git -C /repo checkout -- . && git -C /repo clean -fdq -- core sqlite server", shell=True)
    return 0


if __name__ == "__main__":
    sys.exit(main())
