#!/usr/bin/env python3
"""Prints the markdown table 'which check catches which seeded change' from seeded/*/meta.json + detect.json."""
import json, os
ROOT = os.path.dirname(os.path.dirname(os.path.abspath(__file__)))
rows = []
for sid in sorted(os.listdir(os.path.join(ROOT, "seeded"))):
    d = os.path.join(ROOT, "seeded", sid)
    if not os.path.exists(os.path.join(d, "meta.json")):
        continue
    m = json.load(open(os.path.join(d, "meta.json")))
    det = json.load(open(os.path.join(d, "detect.json"))) if os.path.exists(os.path.join(d, "detect.json")) else []
    res = "; ".join(f"{x['check']} {x['tier']}: {'DETECTED' if x['detected'] else ('tool error' if x['exit'] == 2 else 'missed')}" for x in det) or "not run"
    summ = (m.get("summary") or "").replace("|", "/").replace("\n", " ")
    needs = (m.get("needs") or "").replace("|", "/").replace("\n", " ")
    rows.append(f"| {sid} | {m.get('property')} | {summ[:170]} | {needs[:150]} | {res} |")
print("| seed | breaks | change | needs, to manifest | result of the registered check |")
print("|---|---|---|---|---|")
print("\n".join(rows))
