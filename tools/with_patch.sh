#!/bin/bash
# usage: tools/with_patch.sh <patch.diff> <command...>   - apply a patch to /repo, run command, always undo
set -u
patch=$1; shift
git -C /repo status --porcelain | grep -q . && { echo "/repo not clean"; exit 3; }
git -C /repo apply "$patch" || { echo "patch does not apply"; exit 3; }
"$@"; rc=$?
git -C /repo checkout -- . ; git -C /repo clean -fdq -- core sqlite server 2>/dev/null
exit $rc
